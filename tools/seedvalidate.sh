#!/bin/bash
# usage: tools/seedvalidate.sh <srcdir-with-patch-and-demo> <outfile>
# Confirms a seeded change in a fresh scratch worktree of /repo (outside /repo and /verif):
#  1. the demonstration passes on the pristine tree, 2. fails with the patch applied,
#  3. the full unedited suite passes with the patch applied (demo removed). The worktree is removed afterwards.
set -u
src="$(cd "$1" && pwd)"; out="$2"; here="$(cd "$(dirname "$0")" && pwd)"
export GOPROXY=off GOSUMDB=off GOTOOLCHAIN=local; unset GOFLAGS
wt=$(mktemp -d /tmp/val.XXXXXX); rmdir "$wt"
git -C /repo worktree add --detach "$wt" HEAD -q || { echo "worktree failed" > "$out"; exit 2; }
trap 'git -C /repo worktree remove --force "$wt" 2>/dev/null; rm -rf "$wt"' EXIT
demo=$(ls "$src"/zz_seeded_*_test.go | head -1)
place=$(head -1 "$demo" | sed -n 's|^// place in: *||p'); place=${place:-.}
{
echo "seed: $src"; echo "demo: $(basename $demo) in $place"; echo "repo HEAD: $(git -C /repo rev-parse --short HEAD)"
cp "$demo" "$wt/$place/"
cd "$wt/$place"
echo "--- 1. demo on pristine tree"
go test -vet=off -count=1 -timeout 30m -run 'TestSeeded' . 2>&1 | grep -E '^(--- FAIL|--- PASS|FAIL|ok|panic:)' | head -20
cd "$wt"
echo "--- 2. demo with patch"
git apply "$src/patch.diff" || echo "PATCH DOES NOT APPLY"
go build ./... 2>&1 | head -5
cd "$wt/$place"
go test -vet=off -count=1 -timeout 30m -run 'TestSeeded' . 2>&1 | grep -E '^(--- FAIL|--- PASS|FAIL|ok|panic:)' | head -20
rm -f "$wt/$place/$(basename $demo)"
echo "--- 3. full suite with patch (demo removed)"
"$here/runsuite.sh" "$wt"
} > "$out" 2>&1
