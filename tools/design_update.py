import json
p='/verif/DESIGN.md'
s=open(p).read()
new=json.load(open('/verif/tools/newrules.json'))
a=s.index("## 5. Findings")
b=s.index("## 6. False-alarm policy")
kf=json.load(open('/verif/known_findings.json'))['findings']
rows_known=[f for f in kf if f['status']=='known']
rows_fixed=[f for f in kf if f['status']=='fixed']
sec5="""## 5. Findings on the unchanged tree (as built)

Every report a rule makes on the pinned tree was reproduced against the real code before it was listed
(`probes/*_test.go`, one probe per entry; a probe *passes* when the defect is present, or - for repaired
defects - asserts the repaired behaviour). Entries are keyed by `property / rule / function / construct`
(never by line) in `/verif/known_findings.json`, so a *different* violation of the same rule is still a
`VIOLATION`. The check prints `KNOWN-FINDING: property=<id> <what fails>` for each `known` entry still
present and exits 0. A `fixed` entry suppresses nothing.

### Repaired in /repo (one unguarded `fix:` commit each; the unedited suite passes with each)

| commit | prop / rule | what failed |
|---|---|---|
"""
seen=set()
for f in rows_fixed:
    line=f['line']
    commit=line.split()[2]
    key=(commit,f['rule'])
    if key in seen: continue
    seen.add(key)
    what=line.split(' ',3)[3]
    sec5+="| %s | %s %s | %s |\n"%(commit,f['property'],f['rule'],what.replace('|','\\|'))
sec5+="""
Each was found by a rule first (R20.3, R20.2, R15.1, R9.1, R4.5, R9.6, R2.3, R9.7), reproduced by a probe,
repaired minimally, and the probe then turned into an assertion of the repaired behaviour.

### Recorded, not repaired (NKNOWN entries)

These change emitted text, need design decisions, or their obvious repair breaks an existing unit test
(R8.2: `TestStructFieldType` drives `fieldRef` on a builder without a package).

| prop | rule / construct | failing input |
|---|---|---|
""".replace("NKNOWN",str(len(rows_known)))
for f in rows_known:
    sec5+="| %s | `%s` | %s |\n"%(f['property'],f['key'].replace('|','\\|'),f['what'].replace('|','\\|'))
sec5+="""
Known defects this family does **not** find (no structural clause exposes them): `0.5 != 1` rejected,
`1 << 2.0` rejected, `-int32(1)` typed as untyped int, typed constant overflow not rejected,
pointer-method addressability, `len(f())` folded.

---------------------------------------------------------------------------------------

"""
s=s[:a]+sec5+s[b:]
s=s.replace("*thorough*: the quick analysis, plus (a) the same analysis with `GOARCH=386`","*thorough* (as built: (a) and (d) below; (b) the go1.26.8 run and (c) the CHA cross-check are designed but not wired into `thorough_cmd` - `bin/gogenvet -cha` exists for manual use): the quick analysis, plus (a) the same analysis with `GOARCH=386`")
sec10=open('/tmp/sec10.md').read()
rules=""
for k in sorted(new):
    rules+="* **%s** — %s\n"%(k,new[k])
sec10=sec10.replace("@@RULES@@",rules)
if "## 10. Rules added during the build" in s:
    s=s[:s.index("\n---------------------------------------------------------------------------------------\n\n## 10. Rules added")]
s=s.rstrip()+"\n"+sec10
open(p,'w').write(s)
