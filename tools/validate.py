#!/usr/bin/env python3
import json, sys, glob, jsonschema
jsonschema.validate(json.load(open('/verif/MANIFEST.json')), json.load(open('/root/.vp/MANIFEST.schema.json')))
print('manifest valid')
es = json.load(open('/root/.vp/EVIDENCE.schema.json'))
for f in sorted(glob.glob('/verif/evidence/C*.json')):
    jsonschema.validate(json.load(open(f)), es)
    print('evidence valid', f)
