#!/bin/bash
# usage: tools/runsuite.sh <dir>  — runs the pinned suite (go build + go test, all packages) in <dir>, prints per-package verdicts
export GOPROXY=off GOSUMDB=off GOTOOLCHAIN=local GOFLAGS=-mod=mod GOWORK=off
cd "$1" || exit 2
go build ./... 2>&1 | head -5
go test -vet=off -count=1 -timeout 25m ./... 2>&1 | grep -E '^(--- FAIL|FAIL|ok|panic:)' | grep -v 'no test files' | head -40
