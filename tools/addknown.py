#!/usr/bin/env python3
"""usage: addknown.py PROP RULE KEY WHAT INPUT  — append a known finding (idempotent on key)"""
import json, sys
prop, rule, key, what, inp = sys.argv[1:6]
f = '/verif/known_findings.json'
d = json.load(open(f))
d['findings'] = [x for x in d['findings'] if not (x['property'] == prop and x['key'] == key)]
d['findings'].append({"property": prop, "rule": rule, "key": key, "status": "known", "what": what, "input": inp})
d['findings'].sort(key=lambda x: (x['property'], x['key']))
json.dump(d, open(f, 'w'), indent=1)
