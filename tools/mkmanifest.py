#!/usr/bin/env python3
"""Regenerates /verif/MANIFEST.json from the table below (kept next to the checks so the
manifest is always valid and current)."""
import json, os, sys
here = os.path.dirname(os.path.dirname(os.path.abspath(__file__)))
props = [json.loads(l) for l in open(os.path.join(here, "properties.jsonl"))]
claimed = json.load(open(os.path.join(here, "tools", "claims.json")))
checks, na = [], []
for p in props:
    pid = p["id"]
    c = claimed.get(pid)
    if not c or c.get("not_applicable"):
        na.append({"property_id": pid, "reason": (c or {}).get("not_applicable", "check not built yet in this commit; design in DESIGN.md section 4")})
        continue
    checks.append({
        "property_id": pid,
        "quick_cmd": "./vcheck %s quick" % pid,
        "thorough_cmd": "./vcheck %s thorough" % pid,
        "evidence_file": "/verif/evidence/%s.json" % pid,
        "replay_cmd_template": "bin/gogenvet -replay {path}",
        "engine": "gogenvet",
        "level_claimed": {"category": "other", "text": c["level_text"], "design_ref": "DESIGN.md section 4, " + pid},
        "level_note": c["level_note"],
        "technique": c["technique"],
    })
m = {
    "version": 1,
    "setup_cmd": "./setup.sh",
    "hooks": {"guard": "verif", "enable": "none needed: static analysis reads /repo's working tree as it is; no hook commits exist",
              "baseline_off_cmd": "cd /repo && go build ./... && go test -vet=off -count=1 ./...",
              "source_commits": [], "add_only": True},
    "engines": [{"name": "gogenvet", "path": "checker/", "serves_properties": [c["property_id"] for c in checks],
                 "kind_free_text": "purpose-built static analyser for goplus/gogen on go/packages + go/types + go/ssa + callgraph (x/tools v0.29.0): typed table extraction, CFG dominance/pairing, operand provenance, points-to with init/run phases, canonical decision-table comparison, map-order leak classification"}],
    "checks": checks,
    "not_applicable": na,
    "notes": "Every check is static: it loads /repo's working tree with go/packages, never runs gogen. Each claims a named structural necessary condition of its property at level 'other' (see DESIGN.md); findings on the unchanged tree are listed in known_findings.json and printed as KNOWN-FINDING lines.",
}
json.dump(m, open(os.path.join(here, "MANIFEST.json"), "w"), indent=1)
print("checks:", len(checks), "not_applicable:", len(na))
