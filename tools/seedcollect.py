#!/usr/bin/env python3
"""Assembles /verif/seeded/<id>/ for every seeded change whose confirmation run (tools/seedvalidate.sh,
result in /tmp/seedval/<id>.txt) shows: demo passes on the pristine tree, fails with the patch, full
suite ok with the patch. Runs the registered checks against the patch (scratch copy) and records which
rule reports it."""
import json, os, re, shutil, subprocess, sys
extra = {"C01a":["C06"],"C02a":["C05"],"C02b":["C12"],"C08b":["C03"],"C10b":["C16"],"C13b":["C09"],"C16a":["C10"],"C03a":["C08"],"C06b":["C01"],"C06a":["C01"]}
props = {json.loads(l)["id"]: json.loads(l) for l in open("/verif/properties.jsonl")}
head = subprocess.check_output(["git","-C","/repo","rev-parse","--short","HEAD"]).decode().strip()
only = sys.argv[1:]
for f in sorted(os.listdir("/tmp/seedval")):
    sid = f[:-4]
    if only and sid not in only: continue
    txt = open("/tmp/seedval/"+f).read()
    parts = re.split(r"(?m)^--- \d\. ", txt)
    if len(parts) < 4: continue
    pristine_ok = "ok  " in parts[1] and "FAIL" not in parts[1]
    patched_fail = "FAIL" in parts[2] and "PATCH DOES NOT APPLY" not in parts[2]
    suite_ok = len(re.findall(r"(?m)^ok  ", parts[3])) == 3 and "FAIL" not in parts[3]
    if "suite finished" not in parts[3]: continue
    prop, k = sid[:3], sid[3]
    src = "/tmp/seedout/%s/%s" % (prop, k)
    dst = "/verif/seeded/%s-%s" % (prop, k)
    if not (pristine_ok and patched_fail and suite_ok):
        print(sid, "NOT CONFIRMED", pristine_ok, patched_fail, suite_ok); continue
    os.makedirs(dst, exist_ok=True)
    shutil.copy(src+"/patch.diff", dst+"/patch.diff")
    demo = [x for x in os.listdir(src) if x.startswith("zz_seeded_") and x.endswith("_test.go")][0]
    shutil.copy(src+"/"+demo, dst+"/"+demo)
    notes = ""
    if os.path.exists(src+"/NOTES.md"):
        shutil.copy(src+"/NOTES.md", dst+"/NOTES.md"); notes = open(src+"/NOTES.md").read()
    shutil.copy("/tmp/seedval/"+f, dst+"/confirmation.txt")
    # run the checks
    ps = [prop] + extra.get(sid, [])
    out = subprocess.run(["/verif/tools/seedtest.sh", src+"/patch.diff"]+ps, capture_output=True, text=True).stdout
    caught = []
    for m in re.finditer(r"^\s+(violated|undecided) (\S+) at (\S+): (.*)$", out, re.M):
        caught.append({"status": m.group(1), "rule_key": m.group(2), "at": m.group(3).rstrip(':'), "detail": m.group(4)[:300]})
    need = ""
    m = re.search(r"(?is)#+\s*what is needed[^\n]*\n(.*?)(\n#+ |\Z)", notes)
    if m: need = m.group(1).strip()[:1500]
    meta = {"id": dst.split("/")[-1], "property": prop, "property_title": props[prop]["title"],
        "source": "written by an independent sub-agent that saw only the property text and a scratch worktree of /repo",
        "base_commit_of_patch": "3827dab", "repo_head_at_confirmation": head,
        "needs_to_manifest": need or "see NOTES.md",
        "confirmed": {"demo_on_pristine_tree": "pass", "demo_with_patch": "fail", "full_suite_with_patch_demo_removed": "all three packages ok",
                      "how": "tools/seedvalidate.sh in a fresh scratch git worktree under /tmp (removed afterwards); transcript in confirmation.txt"},
        "checks_run": ["./vcheck %s quick (on a scratch copy with the patch applied: tools/seedtest.sh)" % p for p in ps],
        "detected": bool(caught), "reported_by": caught}
    json.dump(meta, open(dst+"/meta.json","w"), indent=1)
    print(sid, "kept; detected=%s" % bool(caught), [c["rule_key"] for c in caught][:3])
