#!/bin/bash
# usage: tools/seedtest.sh <patch.diff> [props...]   (default: all 20)
# Applies the patch to a scratch copy of /repo's working tree, runs the named checks on the copy
# (no evidence written), prints what each reports, and removes the copy.
set -u
patch="$1"; shift
props="${*:-C01 C02 C03 C04 C05 C06 C07 C08 C09 C10 C11 C12 C13 C14 C15 C16 C17 C18 C19 C20}"
here="$(cd "$(dirname "$0")/.." && pwd)"
dir=$(mktemp -d /tmp/seedtest.XXXXXX)
trap 'rm -rf "$dir"' EXIT
rsync -a --exclude .git /repo/ "$dir/"
if ! (cd "$dir" && patch -p1 -s < "$patch"); then echo "PATCH DOES NOT APPLY"; exit 2; fi
export GOWORK=off GOFLAGS=-mod=mod GOPROXY=off GOSUMDB=off GOTOOLCHAIN=local
run() {
  p=$1
  out=$("$here/bin/gogenvet" -prop $p -repo "$dir" -no-evidence 2>&1)
  echo "$out" | grep -A1 '^VIOLATION' | grep -v '^--' | sed "s|$dir/||g" | cut -c1-400
  echo "$out" | tail -1
}
for p in $props; do run $p & 
  while [ $(jobs -r | wc -l) -ge 5 ]; do sleep 0.5; done
done
wait
