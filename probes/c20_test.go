package probes

import (
	"os"
	"path/filepath"
	"testing"

	"github.com/goplus/gogen/packages/cache"
)

// R20.3 (FIXED by /repo commit 8a71ce7): a negative dependency count in the cache file used to
// panic (makeslice: cap out of range); it must be reported as an error. This probe now asserts
// the repaired behaviour.
func TestC20_NegativeDepCount(t *testing.T) {
	dir := t.TempDir()
	file := filepath.Join(dir, "cache")
	os.WriteFile(file, []byte("foo\t/x/foo.a\thash\t-1\n"), 0o644)
	c := cache.New(func(string, bool) string { return "hash" })
	defer func() {
		if r := recover(); r != nil {
			t.Fatalf("defect is back: Load panicked: %v", r)
		}
	}()
	if err := c.Load(file); err == nil {
		t.Fatal("malformed cache file accepted")
	}
}

// R20.2 (FIXED by /repo commit ef8442a): the fingerprint changed and `go list` fails: Find used to
// serve the stale export file. This probe now asserts the repaired behaviour.
func TestC20_StaleAfterFailedList(t *testing.T) {
	dir := t.TempDir()
	// a stub `go` that always fails
	bin := filepath.Join(dir, "bin")
	os.Mkdir(bin, 0o755)
	os.WriteFile(filepath.Join(bin, "go"), []byte("#!/bin/sh\necho 'go: listing failed' >&2\nexit 1\n"), 0o755)
	t.Setenv("PATH", bin+string(os.PathListSeparator)+os.Getenv("PATH"))
	exp := filepath.Join(dir, "foo.a")
	os.WriteFile(exp, []byte("OLD EXPORT DATA"), 0o644)
	file := filepath.Join(dir, "cache")
	os.WriteFile(file, []byte("foo\t"+exp+"\thash1\t0\n"), 0o644)
	cur := "hash2" // the package's fingerprint has changed since it was recorded
	c := cache.New(func(string, bool) string { return cur })
	if err := c.Load(file); err != nil {
		t.Fatal(err)
	}
	f, err := c.Find(dir, "foo")
	if err == nil {
		b := make([]byte, 32)
		n, _ := f.Read(b)
		f.Close()
		t.Fatalf("defect is back: fingerprint changed, go list failed, yet Find served: %q", b[:n])
	}
	t.Logf("Find reports: %v (ListTimes=%d)", err, c.ListTimes())
}
