package probes

import (
	"go/types"
	"testing"

	"github.com/goplus/gogen"
)

// R17.3: AssignableTo passes a nil operand to assignable, which reads pv.CVal.
func TestC17_AssignableToNilOperand(t *testing.T) {
	pkg := gogen.NewPackage("", "main", &gogen.Config{Fset: fset, Importer: imp})
	big := pkg.Import("github.com/goplus/gogen/internal/builtin")
	bigint := big.Ref("XGo_bigint").Type()
	expectFault(t, func() {
		gogen.AssignableTo(pkg, types.Typ[types.Int], bigint)
	})
}
