package probes

import (
	"go/token"
	"go/types"
	"strings"
	"testing"

	"github.com/goplus/gogen"
)

// R9.1 (FIXED in /repo): a declared name that was not registered with useName shadowed an import of
// the same name; the emitted `fmt.Println()` referred to the local declaration. The six probes below
// now assert the repaired behaviour: the import is renamed and the output type-checks.

func callPrintln(pkg *gogen.Package, cb *gogen.CodeBuilder) *gogen.CodeBuilder {
	fmt := pkg.Import("fmt")
	return cb.Val(fmt.Ref("Println")).Call(0).EndStmt()
}

func expectShadowed(t *testing.T, pkg *gogen.Package, build func()) {
	t.Helper()
	ok, fail := accepted(build)
	if !ok {
		t.Fatalf("builder rejected: %v", fail)
	}
	src := emit(t, pkg)
	if !strings.Contains(src, `"fmt"`) {
		t.Fatalf("unexpected output:\n%s", src)
	}
	if err := goCheck(src); err != nil {
		t.Fatalf("defect is back: the declaration captures the import: %v\n%s", err, src)
	}
	t.Logf("import renamed:\n%s", src)
}

func TestC09_ParamShadowsImport(t *testing.T) {
	pkg := newPkg()
	expectShadowed(t, pkg, func() {
		p := types.NewParam(token.NoPos, pkg.Types, "fmt", types.Typ[types.Int])
		cb := pkg.NewFunc(nil, "f", types.NewTuple(p), nil, false).BodyStart(pkg)
		callPrintln(pkg, cb).End()
	})
}

func TestC09_ReceiverShadowsImport(t *testing.T) {
	pkg := newPkg()
	expectShadowed(t, pkg, func() {
		T := pkg.NewType("T").InitType(pkg, types.Typ[types.Int])
		recv := types.NewParam(token.NoPos, pkg.Types, "fmt", T)
		cb := pkg.NewFunc(recv, "m", nil, nil, false).BodyStart(pkg)
		callPrintln(pkg, cb).End()
	})
}

func TestC09_TypedVarShadowsImport(t *testing.T) {
	pkg := newPkg()
	expectShadowed(t, pkg, func() {
		cb := pkg.NewFunc(nil, "main", nil, nil, false).BodyStart(pkg).
			NewVar(types.Typ[types.Int], "fmt")
		callPrintln(pkg, cb).End()
	})
}

func TestC09_RangeVarShadowsImport(t *testing.T) {
	pkg := newPkg()
	expectShadowed(t, pkg, func() {
		cb := pkg.NewFunc(nil, "main", nil, nil, false).BodyStart(pkg).
			NewVar(types.NewSlice(types.Typ[types.Int]), "a").
			ForRange("fmt").VarVal("a").RangeAssignThen(token.NoPos)
		callPrintln(pkg, cb).End().End()
	})
}

func TestC09_TypeSwitchVarShadowsImport(t *testing.T) {
	pkg := newPkg()
	expectShadowed(t, pkg, func() {
		cb := pkg.NewFunc(nil, "main", nil, nil, false).BodyStart(pkg).
			NewVar(gogen.TyEmptyInterface, "v").
			TypeSwitch("fmt").VarVal("v").TypeAssertThen().
			Typ(types.Typ[types.Int]).TypeCase().Then()
		callPrintln(pkg, cb).End().End().End()
	})
}

func TestC09_ConstBlockShadowsImport(t *testing.T) {
	pkg := newPkg()
	expectShadowed(t, pkg, func() {
		pkg.NewConstDefs(pkg.Types.Scope()).
			New(func(cb *gogen.CodeBuilder) int { cb.Val(1); return 1 }, 0, token.NoPos, nil, "a").
			Next(1, token.NoPos, "fmt")
		cb := pkg.NewFunc(nil, "main", nil, nil, false).BodyStart(pkg)
		callPrintln(pkg, cb).End()
	})
}

// R9.2: generated names are not checked against user names.
func TestC09_AutoNameCollision(t *testing.T) {
	pkg := newPkg()
	mustBeAcceptedButIllTyped(t, pkg, func() {
		// user variable spelled like the first auto name, then an `any` member access which
		// hoists `_autoGo_1, _ := v.(map[string]any)` into the same block
		pkg.NewFunc(nil, "main", nil, nil, false).BodyStart(pkg).
			NewVar(types.Typ[types.Int], "_autoGo_1").
			NewVar(gogen.TyEmptyInterface, "v").
			DefineVarStart(0, "x").VarVal("v").MemberVal("name", 0).EndInit(1).
			End()
	})
}

// R9.2: the fixed helper names of the enumerator lowering collide with user variables.
func TestC09_XgoOkCollision(t *testing.T) {
	pkg := newPkg()
	mustBeAcceptedButIllTyped(t, pkg, func() {
		foo := pkg.Import("github.com/goplus/gogen/internal/foo")
		v := types.NewParam(token.NoPos, pkg.Types, "v", foo.Ref("NodeSet").Type())
		pkg.NewFunc(nil, "bar", types.NewTuple(v), nil, false).BodyStart(pkg).
			ForRange("k", "x").Val(v).RangeAssignThen(token.NoPos).
			NewVar(types.Typ[types.Int], "_xgo_ok").
			End().
			End()
	})
}
