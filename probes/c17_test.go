package probes

import (
	"fmt"
	"go/token"
	"go/types"
	"math/big"
	"runtime"
	"testing"

)

// runtimeFault runs build and reports whether it failed with a Go run-time fault
// (runtime.Error) rather than an error report.
func runtimeFault(build func()) (fault error, other any) {
	defer func() {
		if r := recover(); r != nil {
			if re, ok := r.(runtime.Error); ok {
				fault = re
			} else {
				other = r
			}
		}
	}()
	build()
	return nil, nil
}

func expectFault(t *testing.T, build func()) {
	t.Helper()
	fault, other := runtimeFault(build)
	if fault == nil {
		t.Fatalf("defect not present: no run-time fault (other=%v)", other)
	}
	t.Logf("run-time fault: %v", fault)
}

// R17.1: unguarded type assertions on operand types.
func TestC17_IncDecOnNonReference(t *testing.T) {
	pkg := newPkg()
	expectFault(t, func() {
		pkg.NewFunc(nil, "main", nil, nil, false).BodyStart(pkg).
			Val(1).IncDec(token.INC).
			End()
	})
}

func TestC17_AssignOpOnNonReference(t *testing.T) {
	pkg := newPkg()
	expectFault(t, func() {
		pkg.NewFunc(nil, "main", nil, nil, false).BodyStart(pkg).
			Val(1).Val(2).AssignOp(token.ADD_ASSIGN).
			End()
	})
}

func TestC17_LitOfNamedOtherKind(t *testing.T) {
	for _, kind := range []string{"slice", "array", "struct"} {
		pkg := newPkg()
		m := pkg.NewType("M").InitType(pkg, types.Typ[types.Int])
		fault, other := runtimeFault(func() {
			cb := pkg.NewFunc(nil, "main", nil, nil, false).BodyStart(pkg)
			switch kind {
			case "slice":
				cb.Val(1).SliceLit(m, 1)
			case "array":
				cb.Val(1).ArrayLit(m, 1)
			case "struct":
				cb.Val(1).StructLit(m, 1, false)
			}
		})
		if fault == nil {
			t.Fatalf("%s: defect not present (other=%v)", kind, other)
		}
		t.Logf("%s literal of a named int type: %v", kind, fault)
	}
}

// R17.3: the valid expression ('a' << 100) % 7 with the default configuration (no big-number types).
func TestC17_BigShiftWithoutBigConfig(t *testing.T) {
	pkg := newPkg()
	fault, other := runtimeFault(func() {
		pkg.NewFunc(nil, "main", nil, nil, false).BodyStart(pkg).
			DefineVarStart(0, "x").
			Val('a').Val(100).BinaryOp(token.SHL).Val(7).BinaryOp(token.REM).
			EndInit(1).
			End()
	})
	if fault == nil {
		t.Fatalf("defect not present (other=%v)", other)
	}
	t.Logf("('a' << 100) %% 7: %v", fault)
}

// R17.3: UntypedBigInt without big-number configuration.
func TestC17_UntypedBigIntWithoutConfig(t *testing.T) {
	pkg := newPkg()
	fault, other := runtimeFault(func() {
		v, _ := new(big.Int).SetString("123456789012345678901234567890", 10)
		pkg.NewFunc(nil, "main", nil, nil, false).BodyStart(pkg).
			DefineVarStart(0, "x").
			UntypedBigInt(v).
			EndInit(1).
			End()
		fmt.Println(pkg.CB().Scope())
	})
	t.Logf("fault=%v other=%v", fault, other)
}

// R17.1: a non-type operand after the first index of an instantiation.
func TestC17_InstantiateWithNonTypeIndex(t *testing.T) {
	pkg := newPkg()
	expectFault(t, func() {
		tp := types.NewTypeParam(types.NewTypeName(token.NoPos, pkg.Types, "T", nil), types.Universe.Lookup("any").Type())
		tq := types.NewTypeParam(types.NewTypeName(token.NoPos, pkg.Types, "U", nil), types.Universe.Lookup("any").Type())
		sig := types.NewSignatureType(nil, nil, []*types.TypeParam{tp, tq}, nil, nil, false)
		fn, _ := pkg.NewFuncWith(token.NoPos, "g", sig, nil)
		fn.BodyStart(pkg).End()
		pkg.NewFunc(nil, "main", nil, nil, false).BodyStart(pkg).
			Val(pkg.Types.Scope().Lookup("g")).Typ(types.Typ[types.Int]).Val(1).Index(2, 0).
			End()
	})
}

// R17.2: the constant shift count is unbounded: folding `1 << n` allocates n bits before anything
// else is checked (go/types rejects counts above 1074 without allocating).
func TestC17_ShiftCountUnbounded(t *testing.T) {
	alloc := func(count int) uint64 {
		pkg := newPkg()
		var m0, m1 runtime.MemStats
		runtime.ReadMemStats(&m0)
		runtimeFault(func() {
			pkg.NewFunc(nil, "main", nil, nil, false).BodyStart(pkg).
				Val(1).Val(count).BinaryOp(token.SHL)
		})
		runtime.ReadMemStats(&m1)
		return m1.TotalAlloc - m0.TotalAlloc
	}
	small, large := alloc(1<<10), alloc(1<<28)
	t.Logf("bytes allocated while folding 1<<(1<<10): %d, 1<<(1<<28): %d", small, large)
	if large < 1<<24 {
		t.Fatalf("defect not present: shift by 1<<28 did not allocate proportionally")
	}
}
