// Package probes reproduces, against the real goplus/gogen code in /repo, every
// defect listed in /verif/known_findings.json. A probe PASSES when the defect is
// present. Probes document findings; they are not part of any registered check
// (the checks are static and never run gogen).
package probes

import (
	"bytes"
	"fmt"
	"go/ast"
	"go/parser"
	"go/token"
	"go/types"
	"strings"
	"testing"

	"github.com/goplus/gogen"
	"github.com/goplus/gogen/packages"
)

var (
	fset = token.NewFileSet()
	imp  = packages.NewImporter(fset)
)

func newPkg() *gogen.Package {
	return gogen.NewPackage("", "main", &gogen.Config{Fset: fset, Importer: imp})
}

func emit(t *testing.T, pkg *gogen.Package) string {
	t.Helper()
	var b bytes.Buffer
	if err := gogen.WriteTo(&b, pkg, ""); err != nil {
		t.Fatal("WriteTo:", err)
	}
	return b.String()
}

// goCheck parses and type-checks src with go/types; returns the first error.
func goCheck(src string) error {
	fs := token.NewFileSet()
	f, err := parser.ParseFile(fs, "out.go", src, 0)
	if err != nil {
		return fmt.Errorf("parse: %w", err)
	}
	// unused variables and imports are left to the Go compiler by the property: ignore them
	var first error
	conf := types.Config{Importer: imp, Error: func(e error) {
		msg := e.Error()
		if strings.Contains(msg, "declared and not used") || strings.Contains(msg, "imported and not used") {
			return
		}
		if first == nil {
			first = e
		}
	}}
	conf.Check("main", fs, []*ast.File{f}, nil)
	return first
}

// accepted runs build and reports whether the builder accepted it (no panic, no error).
func accepted(build func()) (ok bool, failure any) {
	defer func() {
		if r := recover(); r != nil {
			ok, failure = false, r
		}
	}()
	build()
	return true, nil
}

// mustBeAcceptedButIllTyped asserts the defect shape "builder accepts, Go rejects".
func mustBeAcceptedButIllTyped(t *testing.T, pkg *gogen.Package, build func()) {
	t.Helper()
	ok, fail := accepted(build)
	if !ok {
		t.Fatalf("defect not present: builder rejected: %v", fail)
	}
	src := emit(t, pkg)
	err := goCheck(src)
	if err == nil {
		t.Fatalf("defect not present: emitted code type-checks:\n%s", src)
	}
	t.Logf("builder accepted; go/types says: %v\n%s", err, src)
}

// newXGoPkg builds a package with the big-number configuration of the XGo front end.
func newXGoPkg() *gogen.Package {
	conf := &gogen.Config{Fset: fset, Importer: imp}
	conf.NewBuiltin = func(pkg *gogen.Package, conf *gogen.Config) *types.Package {
		b := pkg.Import("github.com/goplus/gogen/internal/builtin")
		builtin := types.NewPackage("", "")
		conf.UntypedBigInt = b.Ref("XGo_untyped_bigint").Type().(*types.Named)
		conf.UntypedBigRat = b.Ref("XGo_untyped_bigrat").Type().(*types.Named)
		conf.UntypedBigFloat = b.Ref("XGo_untyped_bigfloat").Type().(*types.Named)
		gogen.InitBuiltin(pkg, builtin, conf)
		return builtin
	}
	return gogen.NewPackage("", "main", conf)
}
