package probes

import (
	"go/token"
	"go/types"
	"testing"

	"github.com/goplus/gogen"
)

// R3.6: an operation on typed constant operands yields a typed constant (Go spec, Constant
// expressions). The builder reported `-int32(1)` and `int32(1) + int32(2)` as untyped int because
// the untyped-result flag was set whenever the operation could be folded; x := -int32(1) is int32
// for Go. Recorded as a known finding (not repaired): the probe PASSES while the defect is present.
// The one-line repair (set the flag only when every operand is untyped) makes this probe report
// int32 / int32 / untyped int / untyped bool; it was tried in a scratch worktree but the full suite
// could not be completed with it in the time available, so it is not committed.
func TestC03_TypedConstantOperationStaysTyped(t *testing.T) {
	pkg := newPkg()
	var neg, sum, unt, cmp types.Type
	pkg.NewFunc(nil, "main", nil, nil, false).BodyStart(pkg).
		DefineVarStart(0, "x").
		Typ(types.Typ[types.Int32]).Val(1).Call(1).UnaryOp(token.SUB).Debug(func(cb *gogen.CodeBuilder) { neg = cb.Get(-1).Type }).
		EndInit(1).
		DefineVarStart(0, "y").
		Typ(types.Typ[types.Int32]).Val(1).Call(1).Typ(types.Typ[types.Int32]).Val(2).Call(1).BinaryOp(token.ADD).Debug(func(cb *gogen.CodeBuilder) { sum = cb.Get(-1).Type }).
		EndInit(1).
		DefineVarStart(0, "z").
		Val(1).Val(2).BinaryOp(token.ADD).Debug(func(cb *gogen.CodeBuilder) { unt = cb.Get(-1).Type }).
		EndInit(1).
		DefineVarStart(0, "w").
		Typ(types.Typ[types.Int32]).Val(1).Call(1).Typ(types.Typ[types.Int32]).Val(2).Call(1).BinaryOp(token.LSS).Debug(func(cb *gogen.CodeBuilder) { cmp = cb.Get(-1).Type }).
		EndInit(1).
		End()
	src := emit(t, pkg)
	if err := goCheck(src); err != nil {
		t.Fatal(err, src)
	}
	if neg != types.Typ[types.UntypedInt] || sum != types.Typ[types.UntypedInt] {
		t.Fatalf("defect no longer present: typed constant operations reported as %v and %v (Go: int32, int32)\n%s", neg, sum, src)
	}
	t.Logf("defect present: -int32(1) reported %v, int32(1)+int32(2) reported %v; Go types both int32", neg, sum)
	if unt != types.Typ[types.UntypedInt] {
		t.Fatalf("1 + 2 reported as %v, Go: untyped int", unt)
	}
	if cmp != types.Typ[types.UntypedBool] {
		t.Fatalf("int32(1) < int32(2) reported as %v, Go: untyped bool", cmp)
	}
}
