package probes

import (
	"go/types"
	"testing"
)

// R5.3: composite-literal elements are accepted by the type-only predicate.
func TestC05_ArrayLitKeyVal_ConstOverflow(t *testing.T) {
	pkg := newPkg()
	mustBeAcceptedButIllTyped(t, pkg, func() {
		pkg.NewFunc(nil, "main", nil, nil, false).BodyStart(pkg).
			DefineVarStart(0, "a").
			Val(0).Val(200).ArrayLit(types.NewArray(types.Typ[types.Int8], 3), 2, true).
			EndInit(1).
			End()
	})
}

func TestC05_MapLit_ConstOverflow(t *testing.T) {
	pkg := newPkg()
	mustBeAcceptedButIllTyped(t, pkg, func() {
		pkg.NewFunc(nil, "main", nil, nil, false).BodyStart(pkg).
			DefineVarStart(0, "a").
			Val(200).Val(1).MapLit(types.NewMap(types.Typ[types.Int8], types.Typ[types.Int]), 2).
			EndInit(1).
			End()
	})
}

func TestC05_MapLitValue_ConstOverflow(t *testing.T) {
	pkg := newPkg()
	mustBeAcceptedButIllTyped(t, pkg, func() {
		pkg.NewFunc(nil, "main", nil, nil, false).BodyStart(pkg).
			DefineVarStart(0, "a").
			Val(1).Val(300).MapLit(types.NewMap(types.Typ[types.Int], types.Typ[types.Uint8]), 2).
			EndInit(1).
			End()
	})
}

func TestC05_StructLit_ConstOverflow(t *testing.T) {
	for _, kv := range []bool{false, true} {
		pkg := newPkg()
		st := types.NewStruct([]*types.Var{types.NewField(0, pkg.Types, "a", types.Typ[types.Int8], false)}, nil)
		mustBeAcceptedButIllTyped(t, pkg, func() {
			cb := pkg.NewFunc(nil, "main", nil, nil, false).BodyStart(pkg).DefineVarStart(0, "s")
			if kv {
				cb.Val(0).Val(200).StructLit(st, 2, true)
			} else {
				cb.Val(200).StructLit(st, 1, false)
			}
			cb.EndInit(1).End()
		})
	}
}
