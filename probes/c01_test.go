package probes

import (
	"go/token"
	"go/types"
	"testing"
)

// R1.4: the "integer" constraint admits floats and complex: `a % b` on float64.
func TestC01_RemOnFloat(t *testing.T) {
	pkg := newPkg()
	mustBeAcceptedButIllTyped(t, pkg, func() {
		pkg.NewFunc(nil, "main", nil, nil, false).BodyStart(pkg).
			NewVar(types.Typ[types.Float64], "a", "b").
			DefineVarStart(0, "c").
			VarVal("a").VarVal("b").BinaryOp(token.REM).
			EndInit(1).
			End()
	})
}

// same constraint: `a | b` on complex128, `^a` on float32
func TestC01_OrOnComplex(t *testing.T) {
	pkg := newPkg()
	mustBeAcceptedButIllTyped(t, pkg, func() {
		pkg.NewFunc(nil, "main", nil, nil, false).BodyStart(pkg).
			NewVar(types.Typ[types.Complex128], "a", "b").
			DefineVarStart(0, "c").
			VarVal("a").VarVal("b").BinaryOp(token.OR).
			EndInit(1).
			End()
	})
}

// ---- R1.1 value-without-type: operands emitted without their type being looked at ----

// Send: `c <- "str"` with c chan int (value operand) and `x <- 1` with x int (channel operand)
func TestC01_SendUnchecked(t *testing.T) {
	pkg := newPkg()
	mustBeAcceptedButIllTyped(t, pkg, func() {
		pkg.NewFunc(nil, "main", nil, nil, false).BodyStart(pkg).
			NewVar(types.NewChan(types.SendRecv, types.Typ[types.Int]), "c").
			VarVal("c").Val("str").Send().
			End()
	})
	pkg = newPkg()
	mustBeAcceptedButIllTyped(t, pkg, func() {
		pkg.NewFunc(nil, "main", nil, nil, false).BodyStart(pkg).
			NewVar(types.Typ[types.Int], "x").
			VarVal("x").Val(1).Send().
			End()
	})
}

// Defer / Go: `defer int(x)` (a conversion, not a call) is accepted
func TestC01_DeferGoConversion(t *testing.T) {
	for _, isGo := range []bool{false, true} {
		pkg := newPkg()
		mustBeAcceptedButIllTyped(t, pkg, func() {
			cb := pkg.NewFunc(nil, "main", nil, nil, false).BodyStart(pkg).
				NewVar(types.Typ[types.Int64], "x").
				Typ(types.Typ[types.Int]).VarVal("x").Call(1)
			if isGo {
				cb.Go()
			} else {
				cb.Defer()
			}
			cb.End()
		})
	}
}

// EndStmt: `x + x` as a statement
func TestC01_ExprStmtNotUsed(t *testing.T) {
	pkg := newPkg()
	mustBeAcceptedButIllTyped(t, pkg, func() {
		pkg.NewFunc(nil, "main", nil, nil, false).BodyStart(pkg).
			NewVar(types.Typ[types.Int], "x").
			VarVal("x").VarVal("x").BinaryOp(token.ADD).EndStmt().
			End()
	})
}

// IndexRef: `a["k"] = 1` on a slice
func TestC01_IndexRefIndexUnchecked(t *testing.T) {
	pkg := newPkg()
	mustBeAcceptedButIllTyped(t, pkg, func() {
		pkg.NewFunc(nil, "main", nil, nil, false).BodyStart(pkg).
			NewVar(types.NewSlice(types.Typ[types.Int]), "a").
			VarVal("a").Val("k").IndexRef(1).Val(1).Assign(1).
			End()
	})
}

// Slice: each of the three bounds is emitted unchecked: a["x":], a[:"y"], a[::"z"]-like
func TestC01_SliceBoundsUnchecked(t *testing.T) {
	for k := 1; k <= 3; k++ {
		pkg := newPkg()
		mustBeAcceptedButIllTyped(t, pkg, func() {
			cb := pkg.NewFunc(nil, "main", nil, nil, false).BodyStart(pkg).
				NewVar(types.NewSlice(types.Typ[types.Int]), "a").
				DefineVarStart(0, "b").
				VarVal("a")
			for i := 1; i <= 3; i++ {
				if i == k {
					cb.Val("s")
				} else {
					cb.Val(i)
				}
			}
			cb.Slice(true).EndInit(1).End()
		})
	}
}

// make: `make([]int, "n")`
func TestC01_MakeSizeUnchecked(t *testing.T) {
	pkg := newPkg()
	mustBeAcceptedButIllTyped(t, pkg, func() {
		pkg.NewFunc(nil, "main", nil, nil, false).BodyStart(pkg).
			DefineVarStart(0, "b").
			Val(pkg.Builtin().Ref("make")).Typ(types.NewSlice(types.Typ[types.Int])).Val("n").Call(2).
			EndInit(1).
			End()
	})
}

// Index: `a["k"]` on a slice (value side)
func TestC01_IndexIndexUnchecked(t *testing.T) {
	pkg := newPkg()
	mustBeAcceptedButIllTyped(t, pkg, func() {
		pkg.NewFunc(nil, "main", nil, nil, false).BodyStart(pkg).
			NewVar(types.NewSlice(types.Typ[types.Int]), "a").
			DefineVarStart(0, "b").
			VarVal("a").Val("k").Index(1, 0).
			EndInit(1).
			End()
	})
}

// R1.3: the conversion node is built after every convertibility test failed: int("a"), and with
// two arguments: int(1, 2)
func TestC01_ConversionUnchecked(t *testing.T) {
	pkg := newPkg()
	mustBeAcceptedButIllTyped(t, pkg, func() {
		pkg.NewFunc(nil, "main", nil, nil, false).BodyStart(pkg).
			NewVar(types.Typ[types.String], "s").
			DefineVarStart(0, "b").
			Typ(types.Typ[types.Int]).VarVal("s").Call(1).
			EndInit(1).
			End()
	})
	pkg = newPkg()
	mustBeAcceptedButIllTyped(t, pkg, func() {
		pkg.NewFunc(nil, "main", nil, nil, false).BodyStart(pkg).
			DefineVarStart(0, "b").
			Typ(types.Typ[types.Int]).Val(1).Val(2).Call(2).
			EndInit(1).
			End()
	})
}
