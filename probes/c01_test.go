package probes

import (
	"go/token"
	"go/types"
	"testing"
)

// R1.4: the "integer" constraint admits floats and complex: `a % b` on float64.
func TestC01_RemOnFloat(t *testing.T) {
	pkg := newPkg()
	mustBeAcceptedButIllTyped(t, pkg, func() {
		pkg.NewFunc(nil, "main", nil, nil, false).BodyStart(pkg).
			NewVar(types.Typ[types.Float64], "a", "b").
			DefineVarStart(0, "c").
			VarVal("a").VarVal("b").BinaryOp(token.REM).
			EndInit(1).
			End()
	})
}

// same constraint: `a | b` on complex128, `^a` on float32
func TestC01_OrOnComplex(t *testing.T) {
	pkg := newPkg()
	mustBeAcceptedButIllTyped(t, pkg, func() {
		pkg.NewFunc(nil, "main", nil, nil, false).BodyStart(pkg).
			NewVar(types.Typ[types.Complex128], "a", "b").
			DefineVarStart(0, "c").
			VarVal("a").VarVal("b").BinaryOp(token.OR).
			EndInit(1).
			End()
	})
}
