package probes

import (
	"go/token"
	"go/types"
	"strings"
	"testing"

	"github.com/goplus/gogen"
)

// R15.1 (FIXED): the dependency list of the XGoPackage marker constant used to be emitted in
// map-iteration order. The probe builds the same package repeatedly; with the defect present at
// least two different texts appear within a few dozen builds.
func buildWithThreeXGoDeps(t *testing.T) string {
	pkg := gogen.NewPackage("", "demo", &gogen.Config{Fset: fset, Importer: imp})
	foo := pkg.Import("github.com/goplus/gogen/internal/foo")
	bar := pkg.Import("github.com/goplus/gogen/internal/bar")
	ovl := pkg.Import("github.com/goplus/gogen/internal/overload")
	var params []*types.Var
	for _, ref := range []gogen.PkgRef{foo, bar, ovl} {
		// first exported named type of each package
		scope := ref.Types.Scope()
		for _, n := range scope.Names() {
			if tn, ok := scope.Lookup(n).(*types.TypeName); ok && tn.Exported() && !tn.IsAlias() {
				if _, isNamed := tn.Type().(*types.Named); isNamed {
					params = append(params, types.NewParam(token.NoPos, pkg.Types, "p"+ref.Types.Name(), types.NewPointer(tn.Type())))
					break
				}
			}
		}
	}
	if len(params) < 2 {
		t.Skip("fixture packages export no named types")
	}
	pkg.NewFunc(nil, "Use", types.NewTuple(params...), nil, false).BodyStart(pkg).End()
	return emit(t, pkg)
}

func TestC15_XGoPackageDepsOrder(t *testing.T) {
	texts := map[string]int{}
	var line string
	for i := 0; i < 60; i++ {
		src := buildWithThreeXGoDeps(t)
		for _, l := range strings.Split(src, "\n") {
			if strings.Contains(l, "XGoPackage") {
				line = l
			}
		}
		texts[line]++
	}
	t.Logf("distinct marker lines over 60 identical builds: %d", len(texts))
	for l, n := range texts {
		t.Logf("%3d x %s", n, l)
	}
	if len(texts) != 1 {
		t.Fatalf("defect present: the marker constant differs between identical builds")
	}
}
