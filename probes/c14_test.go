package probes

import (
	"go/ast"
	"go/importer"
	"go/parser"
	"go/token"
	"go/types"
	"testing"

	"github.com/goplus/gogen"
)

// typeOfX builds `type M <under>; func main() { x := <Zero(M)> }` and returns the type go/types
// gives x in the emitted source, plus the type the builder reported for the zero expression.
func zeroInferred(t *testing.T, under types.Type) (goType string, reported string, src string) {
	pkg := newPkg()
	m := pkg.NewType("M").InitType(pkg, under)
	var rep types.Type
	pkg.NewFunc(nil, "main", nil, nil, false).BodyStart(pkg).
		DefineVarStart(0, "x").
		ZeroLit(m).Debug(func(cb *gogen.CodeBuilder) { rep = cb.Get(-1).Type }).
		EndInit(1).
		End()
	src = emit(t, pkg)
	fs := token.NewFileSet()
	f, err := parser.ParseFile(fs, "out.go", src, 0)
	if err != nil {
		t.Fatal(err)
	}
	info := &types.Info{Defs: map[*ast.Ident]types.Object{}}
	conf := types.Config{Importer: importer.Default(), Error: func(error) {}}
	conf.Check("main", fs, []*ast.File{f}, info)
	for id, o := range info.Defs {
		if id.Name == "x" && o != nil {
			goType = o.Type().String()
		}
	}
	return goType, rep.String(), src
}

func TestC14_ZeroOfNamedTypes(t *testing.T) {
	for name, under := range map[string]types.Type{
		"int":    types.Typ[types.Int],
		"bool":   types.Typ[types.Bool],
		"string": types.Typ[types.String],
		"struct": types.NewStruct([]*types.Var{types.NewField(0, nil, "a", types.Typ[types.Int], false)}, nil),
	} {
		goT, rep, src := zeroInferred(t, under)
		if goT == rep {
			t.Fatalf("%s: defect not present: Go and builder agree on %s\n%s", name, goT, src)
		}
		t.Logf("named %s: builder reports %s, Go types x as %s\n%s", name, rep, goT, src)
	}
}
