package probes

import (
	"go/token"
	"go/types"
	"strings"
	"testing"

	"github.com/goplus/gogen"
)

func field(pkg *gogen.Package, name string, typ types.Type, embedded bool) *types.Var {
	return types.NewField(token.NoPos, pkg.Types, name, typ, embedded)
}

// R8.1: type S struct{ A; B }; A struct{ C }; C struct{ x string }; B struct{ x int }
// Go: s.x designates B.x (depth 1, int). The builder's depth-first search finds A.C.x (depth 2, string).
func depthGraph(pkg *gogen.Package) types.Type {
	C := pkg.NewType("C").InitType(pkg, types.NewStruct([]*types.Var{field(pkg, "x", types.Typ[types.String], false)}, nil))
	A := pkg.NewType("A").InitType(pkg, types.NewStruct([]*types.Var{field(pkg, "C", C, true)}, nil))
	B := pkg.NewType("B").InitType(pkg, types.NewStruct([]*types.Var{field(pkg, "x", types.Typ[types.Int], false)}, nil))
	return pkg.NewType("S").InitType(pkg, types.NewStruct([]*types.Var{field(pkg, "A", A, true), field(pkg, "B", B, true)}, nil))
}

func TestC08_DepthFirstValueSide(t *testing.T) {
	pkg := newPkg()
	S := depthGraph(pkg)
	var got types.Type
	pkg.NewFunc(nil, "main", nil, nil, false).BodyStart(pkg).
		NewVar(S, "s").
		DefineVarStart(0, "v").VarVal("s").MemberVal("x", 0).
		Debug(func(cb *gogen.CodeBuilder) { got = cb.Get(-1).Type }).
		EndInit(1).End()
	if got == types.Typ[types.Int] {
		t.Fatalf("defect not present: s.x has type int")
	}
	t.Logf("builder types s.x as %v; Go designates the depth-1 field B.x of type int", got)
}

func TestC08_DepthFirstRefSide(t *testing.T) {
	pkg := newPkg()
	S := depthGraph(pkg)
	// s.x = 1 : Go assigns B.x (int) -> valid; the builder resolves A.C.x (string) and rejects
	ok, fail := accepted(func() {
		pkg.NewFunc(nil, "main", nil, nil, false).BodyStart(pkg).
			NewVar(S, "s").
			VarVal("s").MemberRef("x").Val(1).Assign(1).
			End()
	})
	if ok {
		t.Fatalf("defect not present: s.x = 1 accepted")
	}
	t.Logf("valid Go `s.x = 1` rejected: %v", fail)
}

// R8.2: the reference-side lookup ignores visibility: fset.base = 1 on a go/token.FileSet.
func TestC08_RefSideIgnoresVisibility(t *testing.T) {
	pkg := newPkg()
	tok := pkg.Import("go/token")
	fs := tok.Ref("FileSet").Type()
	mustBeAcceptedButIllTyped(t, pkg, func() {
		pkg.NewFunc(nil, "main", nil, nil, false).BodyStart(pkg).
			NewVar(fs, "s").
			VarVal("s").MemberRef("base").Val(1).Assign(1).
			End()
	})
	// sibling: the value side rejects the same selector
	pkg2 := newPkg()
	tok2 := pkg2.Import("go/token")
	ok, fail := accepted(func() {
		pkg2.NewFunc(nil, "main", nil, nil, false).BodyStart(pkg2).
			NewVar(tok2.Ref("FileSet").Type(), "s").
			DefineVarStart(0, "v").VarVal("s").MemberVal("base", 0).EndInit(1).
			End()
	})
	if ok || !strings.Contains(failString(fail), "base") {
		t.Fatalf("value side unexpectedly accepted s.base (%v)", fail)
	}
}

func failString(v any) string {
	if e, ok := v.(error); ok {
		return e.Error()
	}
	if s, ok := v.(string); ok {
		return s
	}
	return ""
}
