package probes

import (
	"go/types"
	"strings"
	"testing"

	"github.com/goplus/gogen"
)

// R9.6 (FIXED in /repo): File.newImport marked the file as needing a usage walk only when it created the
// import identifier. A reference that was built, discarded, followed by a write, and then built again (same
// import, identifier already there) left the file "clean": the second write emitted the reference
// without its import. The probe now asserts the repaired behaviour.
func TestC09_ImportDroppedAfterDiscardedReference(t *testing.T) {
	pkg := newPkg()
	bytesPkg := pkg.Import("bytes")
	bufT := bytesPkg.Ref("Buffer").Type()
	_ = gogen.TypeAST(pkg, types.NewPointer(bufT)) // reference built, then discarded
	first := emit(t, pkg)                           // write: walk finds no use, file is now clean
	pkg.NewVar(0, types.NewPointer(bufT), "b")      // the same import is referenced again
	second := emit(t, pkg)
	t.Logf("first:\n%s\nsecond:\n%s", first, second)
	if strings.Contains(second, "bytes.Buffer") && !strings.Contains(second, `"bytes"`) {
		t.Fatalf("defect is back: reference emitted without its import")
	}
	if err := goCheck(second); err != nil {
		t.Fatalf("output does not type-check: %v", err)
	}
}

// R9.7 (FIXED in /repo): the write-time usage visitor walked TypeSpec.Type but not TypeSpec.TypeParams: a
// package referenced only from a type parameter constraint was not imported. The probe now asserts the
// repaired behaviour.
func TestC09_ImportDroppedForTypeParamConstraint(t *testing.T) {
	pkg := newPkg()
	fmtPkg := pkg.Import("fmt")
	stringer := fmtPkg.Ref("Stringer").Type()
	tp := types.NewTypeParam(types.NewTypeName(0, pkg.Types, "T", nil), stringer)
	pkg.NewType("G").InitType(pkg, types.NewStruct(nil, nil), tp)
	src := emit(t, pkg)
	t.Logf("\n%s", src)
	if strings.Contains(src, "fmt.Stringer") && !strings.Contains(src, `"fmt"`) {
		t.Fatalf("defect is back: constraint emitted without its import")
	}
	if err := goCheck(src); err != nil {
		t.Fatalf("output does not type-check: %v", err)
	}
}
