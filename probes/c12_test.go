package probes

import (
	"go/ast"
	"go/parser"
	"go/token"
	"math/big"
	"strings"
	"testing"

	"github.com/goplus/gogen"
)

func parses(src string) error {
	_, err := parser.ParseFile(token.NewFileSet(), "out.go", src, 0)
	return err
}

// R12.1: negative numbers become single INT/FLOAT "tokens"; negating them prints `--N`.
func TestC12_NegativeLiteralTokens(t *testing.T) {
	for name, v := range map[string]any{"int": -1, "bigint": big.NewInt(-5), "float": -1.5} {
		pkg := newPkg()
		ok, fail := accepted(func() {
			pkg.NewFunc(nil, "main", nil, nil, false).BodyStart(pkg).
				NewVar(gogen.TyEmptyInterface, "x").
				VarRef("x").Val(v).UnaryOp(token.SUB).Assign(1).
				End()
		})
		if !ok {
			t.Fatalf("%s: builder rejected: %v", name, fail)
		}
		src := emit(t, pkg)
		err := parses(src)
		if err == nil {
			t.Fatalf("%s: defect not present: output parses:\n%s", name, src)
		}
		t.Logf("%s: emitted text does not parse: %v\n%s", name, err, src)
	}
}

// R12.1: UntypedBigInt/UntypedBigRat put a negative number into an INT literal node: the text parses
// back to a different tree (a unary expression).
func TestC12_NegativeBigLiteralNotIdentical(t *testing.T) {
	pkg := newXGoPkg()
	pkg.NewFunc(nil, "main", nil, nil, false).BodyStart(pkg).
		DefineVarStart(0, "x").UntypedBigInt(big.NewInt(-6)).EndInit(1).
		End()
	src := emit(t, pkg)
	f, err := parser.ParseFile(token.NewFileSet(), "out.go", src, 0)
	if err != nil {
		t.Fatal(err)
	}
	unary := false
	ast.Inspect(f, func(n ast.Node) bool {
		if call, ok := n.(*ast.CallExpr); ok && len(call.Args) == 1 {
			if _, ok := call.Args[0].(*ast.UnaryExpr); ok {
				unary = true
			}
		}
		return true
	})
	if !unary {
		t.Fatalf("defect not present:\n%s", src)
	}
	t.Logf("the builder holds BasicLit{INT, \"-6\"}; the printed text parses back as a unary expression:\n%s", src)
}

// R12.1: ValWithUnit prints an exact fraction as an INT literal.
func TestC12_UnitFractionAsInt(t *testing.T) {
	pkg := newPkg()
	tm := pkg.Import("time")
	pkg.NewFunc(nil, "main", nil, nil, false).BodyStart(pkg).
		DefineVarStart(0, "d").
		ValWithUnit(&ast.BasicLit{Kind: token.FLOAT, Value: "0.1"}, tm.Ref("Duration").Type(), "ns").
		EndInit(1).
		End()
	src := emit(t, pkg)
	if !strings.Contains(src, "1/10") {
		t.Fatalf("defect not present:\n%s", src)
	}
	t.Logf("0.1ns is emitted as the \"integer literal\" 1/10 (Go evaluates 1/10 == 0; the builder's constant is 1/10):\n%s", src)
}

// R12.1: ValWithUnit prints an overflowing float as +Inf.
func TestC12_UnitFloatOverflow(t *testing.T) {
	pkg := newPkg()
	u := pkg.Import("github.com/goplus/gogen/internal/unit")
	ok, fail := accepted(func() {
		pkg.NewFunc(nil, "main", nil, nil, false).BodyStart(pkg).
			DefineVarStart(0, "d").
			ValWithUnit(&ast.BasicLit{Kind: token.FLOAT, Value: "1e400"}, u.Ref("Seconds").Type(), "s").
			EndInit(1).
			End()
	})
	if !ok {
		t.Fatalf("defect not present: rejected: %v", fail)
	}
	src := emit(t, pkg)
	if err := goCheck(src); err == nil {
		t.Fatalf("defect not present: type-checks:\n%s", src)
	} else {
		t.Logf("the float literal 1e400 (which Go rejects as overflowing) is emitted as the text +Inf: %v\n%s", err, src)
	}
}
