package probes

import (
	"go/constant"
	"go/token"
	"go/types"
	"testing"

	"github.com/goplus/gogen"
)

// R4.3: a constant crossing a conversion is copied unconverted.
func TestC04_ConversionCopiesConstant(t *testing.T) {
	// int8(200): Go rejects (constant 200 overflows int8); the builder accepts and folds 200
	pkg := newPkg()
	mustBeAcceptedButIllTyped(t, pkg, func() {
		pkg.NewFunc(nil, "main", nil, nil, false).BodyStart(pkg).
			DefineVarStart(0, "x").Typ(types.Typ[types.Int8]).Val(200).Call(1).EndInit(1).
			End()
	})
	// string(65): Go's constant value is "A"; the builder carries the integer 65
	pkg2 := newPkg()
	var cv constant.Value
	pkg2.NewFunc(nil, "main", nil, nil, false).BodyStart(pkg2).
		DefineVarStart(0, "s").Typ(types.Typ[types.String]).Val(65).Call(1).
		Debug(func(cb *gogen.CodeBuilder) { cv = cb.Get(-1).CVal }).
		EndInit(1).End()
	if cv == nil || cv.Kind() != constant.Int {
		t.Fatalf("defect not present: string(65) carries %v", cv)
	}
	t.Logf("string(65) carries the constant %v of kind %v; Go's value is \"A\"", cv, cv.Kind())
}

// R4.5 (FIXED by /repo commit 3827dab): the division-by-zero test was not applied to %: `5 % 0` failed with a
// run-time integer divide by zero inside go/constant and `a % 0` was emitted. The probe asserts the repaired behaviour.
func TestC04_RemByZero(t *testing.T) {
	pkg := newPkg()
	fault, other := runtimeFault(func() {
		pkg.NewFunc(nil, "main", nil, nil, false).BodyStart(pkg).
			DefineVarStart(0, "x").Val(5).Val(0).BinaryOp(token.REM).EndInit(1).
			End()
	})
	if fault != nil || other == nil {
		t.Fatalf("defect is back: 5 %% 0: fault=%v other=%v", fault, other)
	}
	pkg2 := newPkg()
	ok, _ := accepted(func() {
		pkg2.NewFunc(nil, "main", nil, nil, false).BodyStart(pkg2).
			NewVar(types.Typ[types.Int], "a").
			DefineVarStart(0, "x").VarVal("a").Val(0).BinaryOp(token.REM).EndInit(1).
			End()
	})
	if ok {
		t.Fatalf("defect is back: a %% 0 accepted")
	}
}
