package probes

import (
	"go/ast"
	"go/parser"
	"go/token"
	"go/types"
	"strings"
	"testing"
)

// R13.3: chan (<-chan int) is printed `chan <-chan int`, which Go reads as chan<- (chan int).
func TestC13_ChanOfRecvChan(t *testing.T) {
	pkg := newPkg()
	inner := types.NewChan(types.RecvOnly, types.Typ[types.Int])
	outer := types.NewChan(types.SendRecv, inner)
	pkg.NewFunc(nil, "main", nil, nil, false).BodyStart(pkg).
		NewVar(outer, "c").
		End()
	src := emit(t, pkg)
	t.Log(src)
	fs := token.NewFileSet()
	f, err := parser.ParseFile(fs, "out.go", src, 0)
	if err != nil {
		t.Fatal(err)
	}
	var ct *ast.ChanType
	ast.Inspect(f, func(n ast.Node) bool {
		if c, ok := n.(*ast.ChanType); ok && ct == nil {
			ct = c
		}
		return true
	})
	if ct == nil {
		t.Fatal("no chan type")
	}
	if ct.Dir == ast.SEND|ast.RECV {
		t.Fatalf("defect not present: outer channel is bidirectional as requested")
	}
	if !strings.Contains(src, "chan <-chan int") {
		t.Fatalf("unexpected text")
	}
	t.Logf("outer direction after re-parse: %v (requested bidirectional)", ct.Dir)
}
