package probes

import (
	"go/token"
	"go/types"
	"testing"
)

// R2.3 (FIXED in /repo): `for i := range p` with p *A, type A [3]int is valid Go (and p[0] was accepted by
// the builder), but the range form was rejected: the sibling tables disagreed on pointers to named array
// types. The probe now asserts the repaired behaviour.
func TestC02_RangeOverPointerToNamedArray(t *testing.T) {
	pkg := newPkg()
	arr := pkg.NewType("A").InitType(pkg, types.NewArray(types.Typ[types.Int], 3))
	// index form: accepted
	okIdx, failIdx := accepted(func() {
		pkg.NewFunc(nil, "f", nil, nil, false).BodyStart(pkg).
			NewVar(types.NewPointer(arr), "p").
			DefineVarStart(token.NoPos, "x").VarVal("p").Val(0).Index(1, 0).EndInit(1).
			End()
	})
	if !okIdx {
		t.Fatalf("index form rejected: %v", failIdx)
	}
	okRng, failRng := accepted(func() {
		pkg.NewFunc(nil, "g", nil, nil, false).BodyStart(pkg).
			NewVar(types.NewPointer(arr), "p").
			ForRange("i").VarVal("p").RangeAssignThen(token.NoPos).End().
			End()
	})
	if !okRng {
		t.Fatalf("defect is back: range over *A rejected: %v", failRng)
	}
	if err := goCheck(emit(t, pkg)); err != nil {
		t.Fatalf("output does not type-check: %v", err)
	}
	// and Go accepts both
	src := "package main\ntype A [3]int\nfunc g() { var p *A; for i := range p { _ = i }; _ = p[0] }\n"
	if err := goCheck(src); err != nil {
		t.Fatalf("Go rejects the reference program: %v", err)
	}
}
