package main

import (
	"gogenvet/fw"
	"gogenvet/rules"
)

// thorough runs the extra configurations of the thorough tier (DESIGN.md §7) and
// merges their obligations. Filled in by thorough_impl.go.
func thorough(vdir, prop, repo string, p rules.Prop, seed int, obs *[]fw.Obligation) map[string]any {
	return thoroughImpl(vdir, prop, repo, p, seed, obs)
}
