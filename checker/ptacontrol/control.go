// Package ptacontrol is the positive control of rule R18.2: a tiny program containing one
// instance of each kind of write into init-time state, plus look-alikes that must NOT be reported.
// The checker analyses it with the same engine on every run and fails if the set of reports differs
// from the expected one (a rule whose expected count on the real tree is zero must not pass vacuously).
package ptacontrol

import (
	"go/ast"
	"go/types"
	"sort"
)

type node struct {
	name string
	next *node
	kids []*node
}

var (
	shared     = &node{name: "shared"}
	sharedList = make([]*node, 1, 8)
	registry   = map[string]*node{}
	sharedID   = ast.NewIdent("x")
	sharedTyp  = types.NewNamed(types.NewTypeName(0, nil, "T", nil), types.Typ[types.Int], nil)
	names      = []string{"b", "a"}
)

func fresh(name string) *node { return &node{name: name} }

func pick(useShared bool) *node {
	if useShared {
		return shared
	}
	return fresh("f")
}

// --- must be reported -------------------------------------------------------------

// StoreThroughAlias writes a field of the shared node through a returned alias.
func StoreThroughAlias(b bool) {
	n := pick(b)
	n.name = "changed"
}

// StoreDeep writes behind a pointer stored in init-time state.
func StoreDeep() {
	shared.next = fresh("n") // the store itself targets the shared node
}

// MapUpdate inserts into an init-time map reached through a parameter-less helper.
func MapUpdate(k string) {
	m := registry
	m[k] = fresh(k)
}

// AppendInPlace appends to an init-time slice that has spare capacity.
func AppendInPlace() []*node {
	return append(sharedList, fresh("x"))
}

// LibraryNodeWrite patches a node created by a library constructor during initialisation.
func LibraryNodeWrite() {
	sharedID.Name = "y"
}

// MutatorOnShared calls a receiver-mutating library method on an init-time object.
func MutatorOnShared(f *types.Func) {
	sharedTyp.AddMethod(f)
}

// SortShared sorts an init-time slice in place.
func SortShared() {
	sort.Strings(names)
}

// --- must NOT be reported ---------------------------------------------------------

// FreshOnly writes only objects it allocated.
func FreshOnly() *node {
	n := fresh("a")
	n.next = fresh("b")
	n.kids = append(n.kids, n.next)
	return n
}

// ReadShared only reads init-time state and stores it into a fresh object.
func ReadShared() *node {
	n := fresh("r")
	n.next = shared
	return n
}

// CallerOwned writes the caller's object.
func CallerOwned(n *node) {
	n.name = "caller"
}
