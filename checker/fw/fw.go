// Package fw is the framework shared by all rules: loading /repo from its working
// tree, SSA and call-graph construction, obligations, floors, evidence.
package fw

import (
	"fmt"
	"go/ast"
	"go/token"
	"go/types"
	"os"
	"path/filepath"
	"sort"
	"strings"
	"time"

	"golang.org/x/tools/go/callgraph"
	"golang.org/x/tools/go/callgraph/cha"
	"golang.org/x/tools/go/callgraph/vta"
	"golang.org/x/tools/go/packages"
	"golang.org/x/tools/go/ssa"
	"golang.org/x/tools/go/ssa/ssautil"
)

const Mod = "github.com/goplus/gogen"

// Analysed lists the packages that make up the builder library (DESIGN.md §2).
var Analysed = []string{
	Mod,
	Mod + "/internal",
	Mod + "/internal/target/util",
	Mod + "/internal/go/printer",
	Mod + "/internal/go/format",
	Mod + "/internal/typeparams",
	Mod + "/internal/goxdbg",
	Mod + "/typeutil",
	Mod + "/target",
	Mod + "/token",
	Mod + "/packages",
	Mod + "/packages/cache",
}

type Status string

const (
	Discharged Status = "discharged"
	Violated   Status = "violated"
	Undecided  Status = "undecided"
)

// Obligation is one decided (or undecidable) instance of a rule. Key is
// rule/function/construct and never contains a line number.
type Obligation struct {
	Rule   string `json:"rule"`
	Key    string `json:"key"`
	Pos    string `json:"pos,omitempty"`
	Status Status `json:"status"`
	Detail string `json:"detail,omitempty"`
}

type Ctx struct {
	Prop    string
	Tier    string
	RepoDir string
	GOARCH  string
	Start   time.Time

	Fset   *token.FileSet
	Roots  []*packages.Package          // packages matched by ./...
	ByPath map[string]*packages.Package // every loaded package incl. std
	Prog   *ssa.Program
	cgVTA  *callgraph.Graph
	cgCHA  *callgraph.Graph

	Obs         []Obligation
	Units       map[string]int
	Assumptions []string
	Explain     []string
	Samples     []any
	Exhaustive  bool

	// OnlyAnalysed, when set, replaces the list of analysed packages (positive controls)
	OnlyAnalysed map[string]bool

	declOf map[*types.Func]*ast.FuncDecl
	fileOf map[*ast.FuncDecl]*packages.Package
}

func goEnv(goarch string) []string {
	env := []string{}
	for _, kv := range os.Environ() {
		if strings.HasPrefix(kv, "GOWORK=") || strings.HasPrefix(kv, "GOFLAGS=") ||
			strings.HasPrefix(kv, "GOPROXY=") || strings.HasPrefix(kv, "GOSUMDB=") ||
			strings.HasPrefix(kv, "GOTOOLCHAIN=") || strings.HasPrefix(kv, "GOARCH=") {
			continue
		}
		env = append(env, kv)
	}
	env = append(env, "GOWORK=off", "GOFLAGS=-mod=mod", "GOPROXY=off", "GOSUMDB=off", "GOTOOLCHAIN=local")
	if goarch != "" {
		env = append(env, "GOARCH="+goarch)
	}
	return env
}

// Load loads repoDir's working tree. needSSA selects LoadAllSyntax+SSA.
func Load(prop, tier, repoDir, goarch string, needSSA bool) (*Ctx, error) {
	c := &Ctx{Prop: prop, Tier: tier, RepoDir: repoDir, GOARCH: goarch, Start: time.Now(),
		Units: map[string]int{}, ByPath: map[string]*packages.Package{}}
	mode := packages.LoadAllSyntax
	_ = needSSA // the std sources are needed by several AST rules as well (go/types/return.go, signatures)
	c.Fset = token.NewFileSet()
	cfg := &packages.Config{Mode: mode, Dir: repoDir, Env: goEnv(goarch), Fset: c.Fset, Tests: false}
	pkgs, err := packages.Load(cfg, "./...")
	if err != nil {
		return nil, fmt.Errorf("load: %v", err)
	}
	if len(pkgs) == 0 {
		return nil, fmt.Errorf("load: no packages matched ./... in %s", repoDir)
	}
	c.Roots = pkgs
	nerr := 0
	var firstErr string
	packages.Visit(pkgs, nil, func(p *packages.Package) {
		c.ByPath[p.PkgPath] = p
		if strings.HasPrefix(p.PkgPath, Mod) {
			for _, e := range p.Errors {
				nerr++
				if firstErr == "" {
					firstErr = e.Error()
				}
			}
		}
	})
	if nerr > 0 {
		return nil, fmt.Errorf("load: %d type/parse errors in %s, first: %s", nerr, repoDir, firstErr)
	}
	for _, p := range Analysed {
		if c.ByPath[p] == nil {
			return nil, fmt.Errorf("load: analysed package %s not found", p)
		}
	}
	c.Units["packages_loaded"] = len(c.ByPath)
	c.Units["packages_analysed"] = len(Analysed)
	if needSSA {
		prog, _ := ssautil.AllPackages(pkgs, ssa.InstantiateGenerics)
		prog.Build()
		c.Prog = prog
	}
	c.indexDecls()
	return c, nil
}

// LoadDir loads a single package pattern from dir (used for positive controls) with SSA; only pkgPath is "analysed".
func LoadDir(dir, pattern, pkgPath string) (*Ctx, error) {
	c := &Ctx{Prop: "control", Tier: "quick", RepoDir: dir, Start: time.Now(), Units: map[string]int{}, ByPath: map[string]*packages.Package{},
		OnlyAnalysed: map[string]bool{pkgPath: true}}
	c.Fset = token.NewFileSet()
	cfg := &packages.Config{Mode: packages.LoadAllSyntax, Dir: dir, Env: goEnv(""), Fset: c.Fset}
	pkgs, err := packages.Load(cfg, pattern)
	if err != nil || len(pkgs) == 0 {
		return nil, fmt.Errorf("load %s: %v", pattern, err)
	}
	for _, p := range pkgs {
		if len(p.Errors) > 0 {
			return nil, fmt.Errorf("load %s: %v", pattern, p.Errors[0])
		}
	}
	c.Roots = pkgs
	packages.Visit(pkgs, nil, func(p *packages.Package) { c.ByPath[p.PkgPath] = p })
	prog, _ := ssautil.AllPackages(pkgs, ssa.InstantiateGenerics)
	prog.Build()
	c.Prog = prog
	c.declOf = map[*types.Func]*ast.FuncDecl{}
	c.fileOf = map[*ast.FuncDecl]*packages.Package{}
	return c, nil
}

func (c *Ctx) indexDecls() {
	c.declOf = map[*types.Func]*ast.FuncDecl{}
	c.fileOf = map[*ast.FuncDecl]*packages.Package{}
	nfn := 0
	for _, path := range Analysed {
		p := c.ByPath[path]
		for _, f := range p.Syntax {
			for _, d := range f.Decls {
				if fd, ok := d.(*ast.FuncDecl); ok {
					if fn, ok := p.TypesInfo.Defs[fd.Name].(*types.Func); ok {
						c.declOf[fn] = fd
						c.fileOf[fd] = p
						nfn++
					}
				}
			}
		}
	}
	c.Units["functions_analysed"] = nfn
}

// Pkg returns an analysed package by import path suffix relative to the module ("" = root).
func (c *Ctx) Pkg(rel string) *packages.Package {
	path := Mod
	if rel != "" {
		path = Mod + "/" + rel
	}
	return c.ByPath[path]
}

func (c *Ctx) AnalysedPkgs() []*packages.Package {
	var r []*packages.Package
	for _, p := range Analysed {
		r = append(r, c.ByPath[p])
	}
	return r
}

func (c *Ctx) IsAnalysed(p *types.Package) bool {
	if p == nil {
		return false
	}
	if c.OnlyAnalysed != nil {
		return c.OnlyAnalysed[p.Path()]
	}
	for _, a := range Analysed {
		if a == p.Path() {
			return true
		}
	}
	return false
}

// Decls returns every function declaration of the analysed packages, sorted by position.
func (c *Ctx) Decls() []*ast.FuncDecl {
	var r []*ast.FuncDecl
	for _, fd := range c.declOf {
		r = append(r, fd)
	}
	sort.Slice(r, func(i, j int) bool { return r[i].Pos() < r[j].Pos() })
	return r
}

func (c *Ctx) DeclOf(fn *types.Func) *ast.FuncDecl { return c.declOf[fn] }
func (c *Ctx) PkgOfDecl(fd *ast.FuncDecl) *packages.Package {
	return c.fileOf[fd]
}

// FuncName gives a stable name for a function: "(*T).M", "T.M" or "f", prefixed by the
// package's path relative to the module when it is not the root package.
func FuncName(fn *types.Func) string {
	name := fn.Name()
	if sig, ok := fn.Type().(*types.Signature); ok && sig.Recv() != nil {
		t := sig.Recv().Type()
		ptr := false
		if p, ok := t.(*types.Pointer); ok {
			t = p.Elem()
			ptr = true
		}
		tn := ""
		switch tt := t.(type) {
		case *types.Named:
			tn = tt.Obj().Name()
		case *types.Alias:
			tn = tt.Obj().Name()
		default:
			tn = t.String()
		}
		if ptr {
			name = "(*" + tn + ")." + name
		} else {
			name = tn + "." + name
		}
	}
	if fn.Pkg() != nil && fn.Pkg().Path() != Mod {
		rel := strings.TrimPrefix(fn.Pkg().Path(), Mod+"/")
		name = rel + ":" + name
	}
	return name
}

// LookupFunc finds a function or method of an analysed package by FuncName syntax
// ("(*CodeBuilder).Send", "matchTypeCast", "packages/cache:(*Impl).Find").
func (c *Ctx) LookupFunc(name string) *types.Func {
	for fn := range c.declOf {
		if FuncName(fn) == name {
			return fn
		}
	}
	return nil
}

// SSAFunc returns the SSA function for a types.Func (nil if no SSA was built).
func (c *Ctx) SSAFunc(fn *types.Func) *ssa.Function {
	if c.Prog == nil || fn == nil {
		return nil
	}
	return c.Prog.FuncValue(fn)
}

func (c *Ctx) Position(pos token.Pos) string {
	if !pos.IsValid() {
		return ""
	}
	p := c.Fset.Position(pos)
	rel, err := filepath.Rel(c.RepoDir, p.Filename)
	if err != nil || strings.HasPrefix(rel, "..") {
		rel = p.Filename
	}
	return fmt.Sprintf("%s:%d", rel, p.Line)
}

func (c *Ctx) add(rule, key string, pos token.Pos, st Status, format string, args ...any) {
	c.Obs = append(c.Obs, Obligation{Rule: rule, Key: rule + "/" + key, Pos: c.Position(pos), Status: st,
		Detail: fmt.Sprintf(format, args...)})
}

func (c *Ctx) OK(rule, key string, pos token.Pos, format string, args ...any) {
	c.add(rule, key, pos, Discharged, format, args...)
}
func (c *Ctx) Violate(rule, key string, pos token.Pos, format string, args ...any) {
	c.add(rule, key, pos, Violated, format, args...)
}
func (c *Ctx) Undecided(rule, key string, pos token.Pos, format string, args ...any) {
	c.add(rule, key, pos, Undecided, format, args...)
}

// Check records a discharged or violated obligation depending on cond.
func (c *Ctx) Check(cond bool, rule, key string, pos token.Pos, format string, args ...any) bool {
	if cond {
		c.add(rule, key, pos, Discharged, format, args...)
	} else {
		c.add(rule, key, pos, Violated, format, args...)
	}
	return cond
}

// Floor fails the check (undecided) when a rule matched fewer instances than confirmed by hand.
func (c *Ctx) Floor(rule, what string, n, floor int) {
	c.Units[rule+" "+what] = n
	if n < floor {
		c.add(rule, "floor/"+what, token.NoPos, Undecided,
			"rule matched %d %s, fewer than the floor %d confirmed by hand: the rule no longer sees the code it is about", n, what, floor)
	}
}

func (c *Ctx) Assume(s string) { c.Assumptions = append(c.Assumptions, s) }
func (c *Ctx) Explainf(format string, args ...any) {
	c.Explain = append(c.Explain, fmt.Sprintf(format, args...))
}

// CallGraph returns the VTA call graph (seeded with CHA), or the CHA graph when coarse.
func (c *Ctx) CallGraph(coarse bool) *callgraph.Graph {
	if c.cgCHA == nil {
		c.cgCHA = cha.CallGraph(c.Prog)
	}
	if coarse {
		return c.cgCHA
	}
	if c.cgVTA == nil {
		c.cgVTA = vta.CallGraph(ssautil.AllFunctions(c.Prog), c.cgCHA)
		n := 0
		for _, nd := range c.cgVTA.Nodes {
			n += len(nd.Out)
		}
		c.Units["callgraph_edges_vta"] = n
	}
	return c.cgVTA
}

// Named looks up a package-level object of an analysed package.
func (c *Ctx) Obj(rel, name string) types.Object {
	p := c.Pkg(rel)
	if p == nil {
		return nil
	}
	return p.Types.Scope().Lookup(name)
}
