package main

import (
	"gogenvet/fw"
	"gogenvet/rules"
)

// properties whose rules consult the call graph (rules/*.go: c.CallGraph)
var usesCallGraph = map[string]bool{"C06": true, "C08": true, "C15": true, "C16": true}

func thoroughImpl(vdir, prop, repo string, p rules.Prop, seed int, obs *[]fw.Obligation) map[string]any {
	extra := map[string]any{}
	// (a) 32-bit configuration
	r386 := runOnce(prop, "thorough", repo, "386", false, p)
	for _, o := range r386.obs {
		o.Key = o.Key + "@GOARCH=386"
		if o.Status != fw.Discharged {
			// report only what differs from the host configuration
			base := o.Key[:len(o.Key)-len("@GOARCH=386")]
			dup := false
			for _, b := range *obs {
				if b.Key == base && b.Status == o.Status {
					dup = true
				}
			}
			if dup {
				continue
			}
		}
		*obs = append(*obs, o)
	}
	configs := []string{"host GOARCH", "GOARCH=386"}
	// (c) the reachability rules must give the same verdicts on the coarser CHA call graph
	if usesCallGraph[prop] {
		rcha := runOnce(prop, "thorough", repo, "", true, p)
		base := map[string]fw.Status{}
		for _, b := range *obs {
			base[b.Key] = b.Status
		}
		ndiff := 0
		for _, o := range rcha.obs {
			if st, ok := base[o.Key]; ok && st == o.Status {
				continue
			}
			ndiff++
			o.Detail = "verdict under the CHA call graph (" + string(o.Status) + ") differs from the verdict under VTA: the reachability rule depends on call-graph precision; " + o.Detail
			o.Key += "@callgraph=CHA"
			o.Status = fw.Undecided
			*obs = append(*obs, o)
		}
		configs = append(configs, "call graph CHA instead of VTA")
		extra["cha_crosscheck"] = map[string]any{"obligations": len(rcha.obs), "differences": ndiff}
	}
	extra["configurations"] = configs
	// (d) sensitivity suite: stored single-edit mutations of the current tree must be reported
	results := runSelftest(vdir, repo, prop, 4, "")
	counts := map[string]int{}
	for _, r := range results {
		counts[r.Outcome]++
		if r.Outcome == "missed" {
			*obs = append(*obs, fw.Obligation{Rule: "selftest", Key: "selftest/" + r.ID, Status: fw.Undecided,
				Detail: "stored mutation was applied to a scratch copy of the current tree but the rule did not report " + r.Expected + ": the checker lost its sensitivity (" + r.Detail + ")"})
		}
	}
	extra["sensitivity"] = map[string]any{"mutations": len(results), "reported": counts["reported"], "missed": counts["missed"],
		"skipped_source_changed": counts["skipped"], "skipped_mutant_does_not_compile": counts["broken"], "results": results}
	return extra
}
