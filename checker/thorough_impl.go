package main

import (
	"gogenvet/fw"
	"gogenvet/rules"
)

func thoroughImpl(vdir, prop, repo string, p rules.Prop, seed int, obs *[]fw.Obligation) map[string]any {
	extra := map[string]any{}
	// (a) 32-bit configuration
	r386 := runOnce(prop, "thorough", repo, "386", false, p)
	for _, o := range r386.obs {
		o.Key = o.Key + "@GOARCH=386"
		if o.Status != fw.Discharged {
			// report only what differs from the host configuration
			base := o.Key[:len(o.Key)-len("@GOARCH=386")]
			dup := false
			for _, b := range *obs {
				if b.Key == base && b.Status == o.Status {
					dup = true
				}
			}
			if dup {
				continue
			}
		}
		*obs = append(*obs, o)
	}
	extra["configurations"] = []string{"host GOARCH", "GOARCH=386"}
	return extra
}
