package main

import (
	"gogenvet/fw"
	"gogenvet/rules"
)

func thoroughImpl(vdir, prop, repo string, p rules.Prop, seed int, obs *[]fw.Obligation) map[string]any {
	extra := map[string]any{}
	// (a) 32-bit configuration
	r386 := runOnce(prop, "thorough", repo, "386", false, p)
	for _, o := range r386.obs {
		o.Key = o.Key + "@GOARCH=386"
		if o.Status != fw.Discharged {
			// report only what differs from the host configuration
			base := o.Key[:len(o.Key)-len("@GOARCH=386")]
			dup := false
			for _, b := range *obs {
				if b.Key == base && b.Status == o.Status {
					dup = true
				}
			}
			if dup {
				continue
			}
		}
		*obs = append(*obs, o)
	}
	extra["configurations"] = []string{"host GOARCH", "GOARCH=386"}
	// (d) sensitivity suite: stored single-edit mutations of the current tree must be reported
	results := runSelftest(vdir, repo, prop, 4, "")
	counts := map[string]int{}
	for _, r := range results {
		counts[r.Outcome]++
		if r.Outcome == "missed" {
			*obs = append(*obs, fw.Obligation{Rule: "selftest", Key: "selftest/" + r.ID, Status: fw.Undecided,
				Detail: "stored mutation was applied to a scratch copy of the current tree but the rule did not report " + r.Expected + ": the checker lost its sensitivity (" + r.Detail + ")"})
		}
	}
	extra["sensitivity"] = map[string]any{"mutations": len(results), "reported": counts["reported"], "missed": counts["missed"],
		"skipped_source_changed": counts["skipped"], "skipped_mutant_does_not_compile": counts["broken"], "results": results}
	return extra
}
