package main

import (
	"encoding/json"
	"fmt"
	"io/fs"
	"os"
	"os/exec"
	"path/filepath"
	"sort"
	"strings"
	"sync"
)

// Mutation is one stored single-edit source change that breaks a rule instance while
// still compiling (DESIGN.md §7d). It is applied to a scratch copy of the CURRENT
// /repo; the copy is removed immediately afterwards.
type Mutation struct {
	ID      string `json:"id"`
	Prop    string `json:"prop"`
	File    string `json:"file"`
	Find    string `json:"find"`
	Replace string `json:"replace"`
	Nth     int    `json:"nth,omitempty"` // 1-based occurrence to replace when Find occurs several times (0 = must be unique)
	Expect  string `json:"expect"`        // substring of the obligation key that must be reported (violated or undecided)
	Note    string `json:"note,omitempty"`
	Patch   string `json:"-"` // path of a unified diff to apply instead of Find/Replace (seeded changes)
}

type mutResult struct {
	ID       string `json:"id"`
	Outcome  string `json:"outcome"` // reported | missed | skipped | broken
	Detail   string `json:"detail,omitempty"`
	Expected string `json:"expected"`
}

func loadMutations(vdir, prop string) []Mutation {
	var all []Mutation
	files, _ := filepath.Glob(filepath.Join(vdir, "checker", "selftest", "*.json"))
	sort.Strings(files)
	for _, f := range files {
		b, err := os.ReadFile(f)
		if err != nil {
			continue
		}
		var ms []Mutation
		if err := json.Unmarshal(b, &ms); err != nil {
			fmt.Fprintf(os.Stderr, "selftest: %s: %v\n", f, err)
			continue
		}
		for _, m := range ms {
			if prop == "" || m.Prop == prop {
				all = append(all, m)
			}
		}
	}
	// the independently written breaking changes kept under seeded/ (DESIGN.md 10.3): each must still be
	// reported by the rule recorded for it
	metas, _ := filepath.Glob(filepath.Join(vdir, "seeded", "*", "meta.json"))
	sort.Strings(metas)
	for _, mf := range metas {
		b, err := os.ReadFile(mf)
		if err != nil {
			continue
		}
		var meta struct {
			ID         string `json:"id"`
			Property   string `json:"property"`
			ReportedBy []struct {
				RuleKey string `json:"rule_key"`
			} `json:"reported_by"`
		}
		if json.Unmarshal(b, &meta) != nil {
			continue
		}
		// every property whose rule reports the change checks it (rule ids are R<number>.<k>)
		byProp := map[string]string{}
		for _, r := range meta.ReportedBy {
			dot := strings.Index(r.RuleKey, ".")
			if !strings.HasPrefix(r.RuleKey, "R") || dot < 2 {
				continue
			}
			n := r.RuleKey[1:dot]
			if len(n) == 1 {
				n = "0" + n
			}
			pid := "C" + n
			if _, seen := byProp[pid]; !seen {
				byProp[pid] = r.RuleKey
			}
		}
		for pid, key := range byProp {
			if prop == "" || pid == prop {
				all = append(all, Mutation{ID: "seeded-" + meta.ID + "@" + pid, Prop: pid, Expect: key,
					Patch: filepath.Join(filepath.Dir(mf), "patch.diff"), Note: "seeded change (written without knowledge of the checks)"})
			}
		}
	}
	return all
}

// copyRepo copies the Go sources of repo (no .git, no test data beyond what builds) to dst.
func copyRepo(repo, dst string) error {
	return filepath.WalkDir(repo, func(path string, d fs.DirEntry, err error) error {
		if err != nil {
			return err
		}
		rel, _ := filepath.Rel(repo, path)
		if d.IsDir() {
			if d.Name() == ".git" {
				return filepath.SkipDir
			}
			return os.MkdirAll(filepath.Join(dst, rel), 0o755)
		}
		if !(strings.HasSuffix(path, ".go") || d.Name() == "go.mod" || d.Name() == "go.sum") {
			return nil
		}
		b, err := os.ReadFile(path)
		if err != nil {
			return err
		}
		return os.WriteFile(filepath.Join(dst, rel), b, 0o644)
	})
}

func applyMutation(dir string, m Mutation) (bool, string) {
	if m.Patch != "" {
		cmd := exec.Command("patch", "-p1", "-s", "-i", m.Patch)
		cmd.Dir = dir
		if out, err := cmd.CombinedOutput(); err != nil {
			return false, "patch does not apply (source changed): " + firstLine(string(out), "")
		}
		return true, ""
	}
	path := filepath.Join(dir, m.File)
	b, err := os.ReadFile(path)
	if err != nil {
		return false, "file missing"
	}
	s := string(b)
	cnt := strings.Count(s, m.Find)
	if cnt == 0 {
		return false, "pattern not found (source changed)"
	}
	if m.Nth == 0 {
		if cnt != 1 {
			return false, fmt.Sprintf("pattern occurs %d times (source changed)", cnt)
		}
		s = strings.Replace(s, m.Find, m.Replace, 1)
	} else {
		if cnt < m.Nth {
			return false, "occurrence not found"
		}
		idx := 0
		for i := 0; i < m.Nth; i++ {
			j := strings.Index(s[idx:], m.Find)
			idx += j
			if i < m.Nth-1 {
				idx += len(m.Find)
			}
		}
		s = s[:idx] + m.Replace + s[idx+len(m.Find):]
	}
	return os.WriteFile(path, []byte(s), 0o644) == nil, ""
}

// runMutation applies m to a scratch copy and runs this binary on it in a child process.
func runMutation(repo string, m Mutation) mutResult {
	res := mutResult{ID: m.ID, Expected: m.Expect}
	dir, err := os.MkdirTemp("", "gogenvet-mut-")
	if err != nil {
		res.Outcome, res.Detail = "skipped", err.Error()
		return res
	}
	defer os.RemoveAll(dir)
	if err := copyRepo(repo, dir); err != nil {
		res.Outcome, res.Detail = "skipped", err.Error()
		return res
	}
	if ok, why := applyMutation(dir, m); !ok {
		res.Outcome, res.Detail = "skipped", why
		return res
	}
	exe, _ := os.Executable()
	cmd := exec.Command(exe, "-prop", m.Prop, "-repo", dir, "-no-evidence", "-list")
	cmd.Env = append(os.Environ(), "VERIF_TIER=quick")
	out, _ := cmd.CombinedOutput()
	text := string(out)
	if strings.Contains(text, "machinery/load") {
		res.Outcome, res.Detail = "broken", "mutant does not type-check: "+firstLine(text, "machinery/load")
		return res
	}
	for _, line := range strings.Split(text, "\n") {
		if (strings.HasPrefix(line, "violated") || strings.HasPrefix(line, "undecided")) && strings.Contains(line, m.Expect) {
			res.Outcome, res.Detail = "reported", strings.TrimSpace(line)
			return res
		}
	}
	res.Outcome = "missed"
	res.Detail = lastLine(text)
	return res
}

func firstLine(text, sub string) string {
	for _, l := range strings.Split(text, "\n") {
		if strings.Contains(l, sub) {
			if len(l) > 300 {
				l = l[:300]
			}
			return l
		}
	}
	return ""
}

func lastLine(text string) string {
	ls := strings.Split(strings.TrimSpace(text), "\n")
	return ls[len(ls)-1]
}

// runSelftest runs the stored mutations of prop, at most par at a time.
func runSelftest(vdir, repo, prop string, par int, only string) []mutResult {
	ms := loadMutations(vdir, prop)
	if only != "" {
		var f []Mutation
		for _, m := range ms {
			if strings.Contains(m.ID, only) {
				f = append(f, m)
			}
		}
		ms = f
	}
	res := make([]mutResult, len(ms))
	sem := make(chan struct{}, par)
	var wg sync.WaitGroup
	for i := range ms {
		wg.Add(1)
		go func(i int) {
			defer wg.Done()
			sem <- struct{}{}
			defer func() { <-sem }()
			res[i] = runMutation(repo, ms[i])
		}(i)
	}
	wg.Wait()
	return res
}
