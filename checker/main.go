// gogenvet decides the structural clauses of the gogen properties C01..C20 from
// /repo's current source (see /verif/DESIGN.md). One invocation = one property.
package main

import (
	"encoding/json"
	"flag"
	"fmt"
	"os"
	"path/filepath"
	"runtime/debug"
	"sort"
	"strconv"
	"strings"
	"time"

	"gogenvet/fw"
	"gogenvet/rules"
)

type knownFinding struct {
	Property string `json:"property"`
	Rule     string `json:"rule"`
	Key      string `json:"key"`
	Status   string `json:"status"` // "known" or "fixed"
	What     string `json:"what"`
	Input    string `json:"input,omitempty"`
	Line     string `json:"line,omitempty"` // for fixed entries: "fixed: property=<id> <commit> <what failed>"
}

type knownFile struct {
	Comment  string         `json:"comment"`
	Findings []knownFinding `json:"findings"`
}

func verifDir() string {
	if d := os.Getenv("VERIF_DIR"); d != "" {
		return d
	}
	exe, err := os.Executable()
	if err == nil {
		d := filepath.Dir(filepath.Dir(exe))
		if _, err := os.Stat(filepath.Join(d, "properties.jsonl")); err == nil {
			return d
		}
	}
	return "/verif"
}

func main() {
	prop := flag.String("prop", "", "property id (C01..C20)")
	tier := flag.String("tier", "", "quick or thorough (default: $VERIF_TIER or quick)")
	repo := flag.String("repo", "/repo", "repository working tree to analyse")
	replay := flag.String("replay", "", "replay file: re-evaluate the single obligation it names")
	noEvidence := flag.Bool("no-evidence", false, "do not write evidence/replay files (used by the sensitivity suite)")
	list := flag.Bool("list", false, "print every obligation")
	goarch := flag.String("goarch", "", "GOARCH for the load (default host)")
	coarse := flag.Bool("cha", false, "use the CHA call graph instead of VTA")
	selftest := flag.Bool("selftest", false, "run only the stored source mutations of -prop (all properties when -prop is empty) and print the outcome")
	only := flag.String("only", "", "with -selftest: only mutations whose id contains this string")
	flag.Parse()
	if *selftest {
		bad := 0
		for _, r := range runSelftest(verifDir(), *repo, *prop, 6, *only) {
			fmt.Printf("%-9s %-40s expect=%s  %s\n", r.Outcome, r.ID, r.Expected, r.Detail)
			if r.Outcome != "reported" {
				bad++
			}
		}
		if bad > 0 {
			os.Exit(1)
		}
		return
	}

	vdir := verifDir()
	var onlyKey string
	if *replay != "" {
		b, err := os.ReadFile(*replay)
		if err != nil {
			fmt.Println("cannot read replay file:", err)
			os.Exit(2)
		}
		var r struct {
			Property string `json:"property"`
			Key      string `json:"key"`
		}
		if err := json.Unmarshal(b, &r); err != nil {
			fmt.Println("bad replay file:", err)
			os.Exit(2)
		}
		*prop, onlyKey = r.Property, r.Key
		*noEvidence = true
		*list = true
	}
	if *tier == "" {
		*tier = os.Getenv("VERIF_TIER")
	}
	if *tier != "thorough" {
		*tier = "quick"
	}
	seed := 0
	if s := os.Getenv("VERIF_SEED"); s != "" {
		seed, _ = strconv.Atoi(s)
	}
	p, ok := rules.Registry[*prop]
	if !ok {
		fmt.Println("unknown property", *prop)
		os.Exit(2)
	}

	start := time.Now()
	res := runOnce(*prop, *tier, *repo, *goarch, *coarse, p)
	obs := res.obs

	// thorough tier: extra configurations + sensitivity suite, driven from here
	var extra map[string]any
	if *tier == "thorough" && *replay == "" && !*noEvidence {
		extra = thorough(vdir, *prop, *repo, p, seed, &obs)
	}

	known := loadKnown(vdir)
	nviol, nknown, nund, ndis := 0, 0, 0, 0
	var lines []string
	replayDir := filepath.Join(vdir, "evidence", "replay")
	if !*noEvidence {
		os.MkdirAll(replayDir, 0o755)
		old, _ := filepath.Glob(filepath.Join(replayDir, *prop+"-*.json"))
		for _, f := range old {
			os.Remove(f)
		}
	}
	sort.SliceStable(obs, func(i, j int) bool { return obs[i].Key < obs[j].Key })
	seen := map[string]bool{}
	k := 0
	for i := range obs {
		o := &obs[i]
		if onlyKey != "" && o.Key != onlyKey {
			continue
		}
		if *list {
			fmt.Printf("%-11s %s  %s  %s\n", o.Status, o.Key, o.Pos, o.Detail)
		}
		switch o.Status {
		case fw.Discharged:
			ndis++
		case fw.Violated, fw.Undecided:
			if o.Status == fw.Violated {
				if kf := matchKnown(known, *prop, o.Key); kf != nil {
					nknown++
					if !seen[o.Key] {
						lines = append(lines, fmt.Sprintf("KNOWN-FINDING: property=%s %s [%s at %s] %s", *prop, kf.What, o.Key, o.Pos, o.Detail))
					}
					seen[o.Key] = true
					continue
				}
				nviol++
			} else {
				nund++
			}
			k++
			path := filepath.Join(replayDir, fmt.Sprintf("%s-%d.json", *prop, k))
			if !*noEvidence {
				b, _ := json.MarshalIndent(map[string]any{
					"property": *prop, "rule": o.Rule, "key": o.Key, "pos": o.Pos, "status": o.Status, "detail": o.Detail,
					"kind": map[fw.Status]string{fw.Violated: "property violation reported by a rule",
						fw.Undecided: "checker could not analyse: the rule no longer recognises the code it is about (treated as a failure, not a pass)"}[o.Status],
					"replay": fmt.Sprintf("bin/gogenvet -replay %s", path),
				}, "", " ")
				os.WriteFile(path, b, 0o644)
			}
			lines = append(lines, fmt.Sprintf("VIOLATION property=%s replay=%s", *prop, path))
			lines = append(lines, fmt.Sprintf("  %s %s at %s: %s", o.Status, o.Key, o.Pos, o.Detail))
		}
	}
	for _, l := range lines {
		fmt.Println(l)
	}
	wall := time.Since(start).Seconds()
	fmt.Printf("property=%s tier=%s obligations=%d discharged=%d known=%d violated=%d undecided=%d wall=%.1fs\n",
		*prop, *tier, len(obs), ndis, nknown, nviol, nund, wall)

	if !*noEvidence {
		writeEvidence(vdir, *prop, *tier, seed, p, res, obs, ndis, nknown, nviol, nund, wall, extra)
	}
	if nviol+nund > 0 {
		os.Exit(1)
	}
}

type runResult struct {
	obs         []fw.Obligation
	units       map[string]int
	assumptions []string
	explain     []string
}

// runOnce loads the tree and runs the property's rules. Any failure of the machinery
// (load error, type error, panic inside a rule) becomes an undecided obligation,
// which fails the check loudly.
func runOnce(prop, tier, repo, goarch string, coarse bool, p rules.Prop) (res runResult) {
	res.units = map[string]int{}
	defer func() {
		if r := recover(); r != nil {
			res.obs = append(res.obs, fw.Obligation{Rule: "machinery", Key: "machinery/panic", Status: fw.Undecided,
				Detail: fmt.Sprintf("analysis panicked: %v\n%s", r, trimStack(debug.Stack()))})
		}
	}()
	c, err := fw.Load(prop, tier, repo, goarch, p.NeedSSA)
	if err != nil {
		res.obs = append(res.obs, fw.Obligation{Rule: "machinery", Key: "machinery/load", Status: fw.Undecided, Detail: err.Error()})
		return
	}
	rules.Coarse = coarse
	func() {
		defer func() {
			res.obs, res.units, res.assumptions, res.explain = c.Obs, c.Units, c.Assumptions, c.Explain
		}()
		p.Run(c)
	}()
	return
}

func trimStack(b []byte) string {
	s := string(b)
	ls := strings.Split(s, "\n")
	if len(ls) > 24 {
		ls = ls[:24]
	}
	return strings.Join(ls, "\n")
}

func loadKnown(vdir string) []knownFinding {
	b, err := os.ReadFile(filepath.Join(vdir, "known_findings.json"))
	if err != nil {
		return nil
	}
	var kf knownFile
	if err := json.Unmarshal(b, &kf); err != nil {
		fmt.Println("warning: known_findings.json unreadable:", err)
		return nil
	}
	return kf.Findings
}

func matchKnown(known []knownFinding, prop, key string) *knownFinding {
	for i := range known {
		k := &known[i]
		if k.Status == "known" && k.Property == prop && k.Key == key {
			return k
		}
	}
	return nil
}

func writeEvidence(vdir, prop, tier string, seed int, p rules.Prop, res runResult, obs []fw.Obligation,
	ndis, nknown, nviol, nund int, wall float64, extra map[string]any) {
	samples := []any{}
	perRule := map[string]int{}
	ruleCount := map[string]map[string]int{}
	for _, o := range obs {
		if ruleCount[o.Rule] == nil {
			ruleCount[o.Rule] = map[string]int{}
		}
		ruleCount[o.Rule][string(o.Status)]++
		if perRule[o.Rule] < 2 {
			perRule[o.Rule]++
			samples = append(samples, o)
		}
	}
	distinct := map[string]bool{}
	for _, o := range obs {
		distinct[o.Key] = true
	}
	cov := map[string]any{
		"explanation": p.Explanation + " | " + strings.Join(res.explain, " | "),
		"obligations": len(obs), "discharged": ndis, "known_findings": nknown, "violated": nviol, "undecided": nund,
		"evaluations": len(obs), "distinct_nontrivial": len(distinct),
		"rule":             "one obligation per (rule, function, construct) instance enumerated from the loaded program; distinct = distinct obligation keys; every instance is a non-trivial site the rule had to decide",
		"per_rule":         ruleCount,
		"units":            res.units,
		"samples":          samples,
		"exhaustive":       true,
		"checker_cmd":      fmt.Sprintf("bin/gogenvet -prop %s -tier %s", prop, tier),
		"trusted_base":     []string{"go/parser, go/types", "golang.org/x/tools v0.29.0 go/packages, go/ssa, callgraph/cha, callgraph/vta", "authored Go-spec tables in checker/rules"},
		"does_not_decide":  p.NotDecided,
		"technique_family": "static analysis (no execution of gogen)",
	}
	for k, v := range extra {
		cov[k] = v
	}
	ev := map[string]any{
		"property_id": prop, "tier": tier, "seed": seed, "level": "other",
		"coverage": cov, "assumptions": append([]string{"excluded: chore/*, tutorial/*, fixture packages, genjs target"}, res.assumptions...),
		"wall_s": wall, "violations": nviol + nund,
	}
	b, _ := json.MarshalIndent(ev, "", " ")
	os.MkdirAll(filepath.Join(vdir, "evidence"), 0o755)
	os.WriteFile(filepath.Join(vdir, "evidence", prop+".json"), b, 0o644)
}
