package rules

import (
	"go/ast"
	"go/constant"
	"go/token"
	"go/types"
	"strings"

	"golang.org/x/tools/go/packages"
	"golang.org/x/tools/go/ssa"

	"gogenvet/fw"
)

func init() {
	register("C12", Prop{
		NeedSSA: true,
		Run:     runC12,
		Explanation: "R12.1 literal producers are lexically valid: for every BasicLit construction the Value producer is classified against the token grammar of the declared Kind (strconv.Quote -> STRING, QuoteRune -> CHAR, constant text, FormatInt/big.Int.String/FormatFloat -> signed text that is a valid INT/FLOAT token only when proved non-negative or wrapped in a unary expression, constant.ExactString -> integer/fraction/float text valid as INT only under a Kind()==Int test); " +
			"R12.2 a statement that may receive a comment group is never a shared (init-time) statement object (points-to, E5), otherwise the same comment is printed at every place the statement is reused; " +
			"R12.3 conversion-callee parenthesisation is exhaustive: the type switch that wraps the callee type of a conversion covers every type whose syntax begins with an operator token (*T, <-chan T / chan T) and the printer fork still parenthesises func types in call position",
		NotDecided: "layout, the fixed point of gofmt, the other divergences of the printer fork from go/printer (would need a parser round trip, which is execution)",
	})
}

func runC12(c *fw.Ctx) {
	r121(c)
	r122(c)
	r123(c)
	r124(c)
	r125(c)
}

// valueProducer classifies the expression giving a BasicLit's Value.
// returns (class, detail): class in const, quote, quoterune, signed-int, signed-bigint, signed-float, exact, raw, param, other
func valueProducer(c *fw.Ctx, p *packages.Package, fd *ast.FuncDecl, e ast.Expr, depth int) (string, string) {
	info := p.TypesInfo
	e = unparen(e)
	if v := constOf(info, e); v != nil && v.Kind() == constant.String {
		return "const", constant.StringVal(v)
	}
	if depth > 4 {
		return "other", exprString(e)
	}
	switch x := e.(type) {
	case *ast.CallExpr:
		fn, _ := callee(info, x).(*types.Func)
		if fn == nil {
			return "other", exprString(e)
		}
		full := ""
		if fn.Pkg() != nil {
			full = fn.Pkg().Path() + "." + shortName(fn)
		}
		switch full {
		case "strconv.Quote":
			return "quote", ""
		case "strconv.QuoteRune":
			return "quoterune", ""
		case "strconv.FormatInt", "strconv.Itoa":
			return "signed-int", exprString(x.Args[0])
		case "strconv.FormatUint":
			return "const", "unsigned"
		case "strconv.FormatFloat":
			return "signed-float", exprString(x.Args[0])
		case "math/big.Int.String":
			return "signed-bigint", ""
		case "go/constant.Value.ExactString":
			return "exact", ""
		}
		// helper of the analysed packages returning the text: look inside
		if hfd := c.DeclOf(fn); hfd != nil && hfd.Body != nil {
			hp := c.PkgOfDecl(hfd)
			var cls, det string
			ast.Inspect(hfd.Body, func(n ast.Node) bool {
				if r, ok := n.(*ast.ReturnStmt); ok && len(r.Results) == 1 && cls == "" {
					cls, det = valueProducer(c, hp, hfd, r.Results[0], depth+1)
				}
				return true
			})
			if cls != "" {
				return cls, det
			}
		}
	case *ast.Ident:
		obj := info.Uses[x]
		// single local definition
		var def ast.Expr
		n := 0
		inspectFunc(fd, func(m ast.Node) bool {
			if as, ok := m.(*ast.AssignStmt); ok {
				for i, l := range as.Lhs {
					if id, ok := l.(*ast.Ident); ok && (info.Defs[id] == obj || info.Uses[id] == obj) && len(as.Lhs) == len(as.Rhs) {
						def = as.Rhs[i]
						n++
					}
				}
			}
			return true
		})
		if n >= 1 && def != nil {
			// several definitions (val += ".0"): classify by the first one, which produces the number
			first := def
			k := 0
			inspectFunc(fd, func(m ast.Node) bool {
				if as, ok := m.(*ast.AssignStmt); ok && as.Tok == token.DEFINE {
					for i, l := range as.Lhs {
						if id, ok := l.(*ast.Ident); ok && info.Defs[id] == obj && k == 0 {
							first = as.Rhs[i]
							k++
						}
					}
				}
				return true
			})
			return valueProducer(c, p, fd, first, depth+1)
		}
		return "param", x.Name
	case *ast.BinaryExpr:
		if x.Op == token.ADD {
			return "raw", exprString(e)
		}
	}
	return "other", exprString(e)
}

func r121(c *fw.Ctx) {
	const rule = "R12.1"
	n := 0
	seen := map[string]int{}
	for _, fd := range c.Decls() {
		p := c.PkgOfDecl(fd)
		if fd.Body == nil || strings.HasPrefix(p.PkgPath, fw.Mod+"/internal/go/") {
			continue
		}
		info := p.TypesInfo
		fname := declName(c, fd)
		inspectFunc(fd, func(m ast.Node) bool {
			lit, ok := m.(*ast.CompositeLit)
			if !ok || !namedIs(info.TypeOf(lit), "go/ast", "BasicLit") {
				return true
			}
			f := structFields(info, lit)
			kind, okK := constInt(info, f["Kind"])
			if !okK || f["Value"] == nil {
				c.Undecided(rule, fname+"/BasicLit/shape", lit.Pos(), "literal kind or value not understood")
				return true
			}
			n++
			tok := token.Token(kind)
			cls, det := valueProducer(c, p, fd, f["Value"], 0)
			base := fname + "/" + tok.String()
			seen[base]++
			key := base
			if seen[base] > 1 {
				key = sprintf("%s#%d", base, seen[base])
			}
			nonNeg := dominatedNonNegative(info, fd, lit, det)
			switch {
			case cls == "const":
				c.Check(validLiteral(tok, det) || det == "unsigned", rule, key, lit.Pos(), "constant text %q is not a valid %s token", det, tok)
			case cls == "quote" && tok == token.STRING, cls == "quoterune" && tok == token.CHAR:
				c.OK(rule, key, lit.Pos(), "strconv quoting yields a valid %s token", tok)
			case cls == "raw" && tok == token.STRING:
				// `"`" + tag + "`"`: valid when guarded by a test that the text contains no back-quote/CR (R13.4 checks the guard)
				c.OK(rule, key, lit.Pos(), "raw string assembled under a guard on its content (R13.4)")
			case (cls == "signed-int" || cls == "signed-bigint") && tok == token.INT:
				c.Check(nonNeg, rule, key, lit.Pos(), "%s builds an INT literal from signed text (%s): a negative value yields the single token `-N`, which is not an INT token — e.g. negating it prints `--N`, which does not parse", fname, det)
			case cls == "signed-float" && tok == token.FLOAT:
				c.Check(nonNeg, rule, key, lit.Pos(), "%s builds a FLOAT literal from strconv.FormatFloat of an arbitrary value: negative numbers, NaN and ±Inf are not FLOAT tokens", fname)
			case cls == "exact" && tok == token.INT:
				c.Check(kindIntGuard(info, fd, lit), rule, key, lit.Pos(), "%s builds an INT literal from constant.Value.ExactString without testing Kind()==Int: a fraction is printed as `a/b`, which Go evaluates with integer division (1/10 == 0) while the builder's constant is 1/10", fname)
			case cls == "param":
				c.OK(rule, key, lit.Pos(), "text supplied by the caller")
			default:
				c.Undecided(rule, key, lit.Pos(), "producer %s (%s) of a %s literal is not classified", cls, det, tok)
			}
			return true
		})
	}
	c.Floor(rule, "BasicLit constructions", n, 12)
}

func validLiteral(tok token.Token, s string) bool {
	switch tok {
	case token.INT:
		if s == "" {
			return false
		}
		for _, r := range s {
			if r < '0' || r > '9' {
				return false
			}
		}
		return true
	case token.STRING:
		return len(s) >= 2
	}
	return false
}

// dominatedNonNegative: the literal sits in a branch taken only when the formatted value is >= 0
// (`if n := x; n < 0 {...} else { lit }`), or the formatted expression is a length.
func dominatedNonNegative(info *types.Info, fd *ast.FuncDecl, lit *ast.CompositeLit, formatted string) bool {
	if strings.HasPrefix(formatted, "len(") {
		return true
	}
	// the denominator of a *big.Rat is always positive: b := v.Denom(); FormatInt(b.Int64(), 10)
	if strings.HasSuffix(formatted, ".Int64()") {
		base := strings.TrimSuffix(formatted, ".Int64()")
		denom := false
		inspectFunc(fd, func(m ast.Node) bool {
			if as, ok := m.(*ast.AssignStmt); ok && len(as.Lhs) == len(as.Rhs) {
				for i, l := range as.Lhs {
					if exprString(l) == base {
						if call, ok := unparen(as.Rhs[i]).(*ast.CallExpr); ok && isFunc(callee(info, call), "math/big", "Rat.Denom") {
							denom = true
						}
					}
				}
			}
			return true
		})
		if denom {
			return true
		}
	}
	ok := false
	inspectFunc(fd, func(m ast.Node) bool {
		is, isIf := m.(*ast.IfStmt)
		if !isIf || is.Else == nil {
			return true
		}
		be, isB := unparen(is.Cond).(*ast.BinaryExpr)
		if !isB {
			return true
		}
		// if n < 0 { ... } else { <lit> }
		if be.Op == token.LSS {
			if v, isC := constInt(info, be.Y); isC && v == 0 && is.Else.Pos() <= lit.Pos() && lit.End() <= is.Else.End() {
				ok = true
			}
		}
		return true
	})
	return ok
}

func kindIntGuard(info *types.Info, fd *ast.FuncDecl, lit *ast.CompositeLit) bool {
	ok := false
	inspectFunc(fd, func(m ast.Node) bool {
		is, isIf := m.(*ast.IfStmt)
		if !isIf || !(is.Body.Pos() <= lit.Pos() && lit.End() <= is.Body.End()) {
			return true
		}
		if strings.Contains(exprString(is.Cond), "Kind() == constant.Int") {
			ok = true
		}
		return true
	})
	return ok
}

// ---------------------------------------------------------------------------

func r122(c *fw.Ctx) {
	const rule = "R12.2"
	p := newPTA(c)
	p.run()
	if p.aborted {
		c.Undecided(rule, "points-to/solver", token.NoPos, "the points-to solver did not reach a fixed point")
		return
	}
	fn := c.SSAFunc(c.LookupFunc("(*Package).setStmtComments"))
	if fn == nil || len(fn.Params) < 2 {
		c.Undecided(rule, "anchor/setStmtComments", token.NoPos, "comment attachment point not found")
		return
	}
	n := p.node(fn.Params[1], phRun)
	var shared []string
	total := 0
	if n >= 0 {
		p.nodes[n].pts.each(func(i int32) {
			total++
			r := p.objs[p.objRoot(objID(i))]
			if r.phase == phInit {
				shared = append(shared, r.label)
			}
		})
	}
	c.Units[rule+" statement objects that may receive a comment"] = total
	c.Check(len(shared) == 0, rule, "setStmtComments/no-shared-statement", fn.Pos(), "a comment group may be attached to a statement object shared by all builds (%v): it would be printed at every reuse of the statement", shared)
	c.Floor(rule, "commentable statement objects", total, 10)
	// callers: only emitStmt attaches statement comments
	callers := 0
	for _, id := range usesOf(c, c.LookupFunc("(*Package).setStmtComments")) {
		if fd := enclosingFunc(c, id.Pos()); fd != nil {
			callers++
			c.Check(declName(c, fd) == "(*CodeBuilder).emitStmt", rule, "setStmtComments/caller/"+declName(c, fd), id.Pos(), "statement comments must be attached only where the statement is emitted")
		}
	}
	c.Floor(rule, "comment attachment call sites", callers, 1)
	_ = ssa.Value(nil)
}

// ---------------------------------------------------------------------------

func r123(c *fw.Ctx) { r123as(c, "R12.3", true) }

// r123as runs the conversion-parenthesisation rule under another rule id (C02: a conversion must be
// reproduced as that conversion); withPrinter adds the printer-fork clause.
func r123as(c *fw.Ctx, rule string, withPrinter bool) {
	fd, p := needDecl(c, rule, "matchTypeCast")
	if fd == nil {
		return
	}
	info := p.TypesInfo
	// the switch that wraps fnVal in a ParenExpr
	var wrapped map[string]bool
	condsOf := map[*ast.CaseClause][]ast.Expr{}
	opaque := map[*ast.CaseClause]bool{}
	caseOf := map[string]*ast.CaseClause{}
	inspectFunc(fd, func(m ast.Node) bool {
		sw, ok := m.(*ast.TypeSwitchStmt)
		if !ok || wrapped != nil {
			return true
		}
		for _, cl := range sw.Body.List {
			cc := cl.(*ast.CaseClause)
			paren := false
			var stack []ast.Node
			for _, st := range cc.Body {
				ast.Inspect(st, func(k ast.Node) bool {
					if k == nil {
						stack = stack[:len(stack)-1]
						return true
					}
					stack = append(stack, k)
					if l, ok := k.(*ast.CompositeLit); ok && namedIs(info.TypeOf(l), "go/ast", "ParenExpr") {
						paren = true
						// conditions the wrap sits under, inside the case
						for _, anc := range stack {
							if is, ok := anc.(*ast.IfStmt); ok && is.Body.Pos() <= l.Pos() && l.End() <= is.Body.End() {
								condsOf[cc] = append(condsOf[cc], is.Cond)
							} else if ok {
								condsOf[cc] = append(condsOf[cc], &ast.UnaryExpr{Op: token.NOT, X: is.Cond})
							}
							switch anc.(type) {
							case *ast.SwitchStmt, *ast.TypeSwitchStmt, *ast.ForStmt, *ast.RangeStmt:
								opaque[cc] = true
							}
						}
					}
					return true
				})
			}
			if paren {
				if wrapped == nil {
					wrapped = map[string]bool{}
				}
				for _, e := range cc.List {
					wrapped[strings.TrimPrefix(exprString(e), "*types.")] = true
					caseOf[strings.TrimPrefix(exprString(e), "*types.")] = cc
				}
			}
		}
		return true
	})
	if wrapped == nil {
		c.Violate(rule, "matchTypeCast/paren-switch", fd.Pos(), "the conversion callee is never parenthesised")
		return
	}
	for _, t := range []string{"Pointer", "Chan"} {
		c.Check(wrapped[t], rule, "matchTypeCast/paren/"+t, fd.Pos(), "a conversion to a *types.%s must parenthesise the type: its syntax starts with an operator token (`*T(x)` dereferences, `<-chan T(x)` receives, `chan T(x)` declares)", t)
	}
	// the wrap may depend only on the channel direction, and must happen for the receive-only direction
	// (Go spec, Conversions: `<-chan int(c)` is `<-(chan int(c))`); a pointer is wrapped unconditionally
	for _, t := range []string{"Pointer", "Chan"} {
		cc := caseOf[t]
		if cc == nil {
			continue
		}
		key := "matchTypeCast/paren/" + t + "/when-needed"
		if opaque[cc] {
			c.Undecided(rule, key, cc.Pos(), "the parenthesisation sits inside a nested switch or loop the rule does not evaluate")
			continue
		}
		ok, und := true, ""
		for _, cond := range condsOf[cc] {
			neg := false
			e := unparen(cond)
			if u, isU := e.(*ast.UnaryExpr); isU && u.Op == token.NOT {
				neg, e = true, unparen(u.X)
			}
			be, isB := e.(*ast.BinaryExpr)
			if !isB || (be.Op != token.EQL && be.Op != token.NEQ) || t != "Chan" {
				und = exprString(cond)
				continue
			}
			call, isC := unparen(be.X).(*ast.CallExpr)
			dir := constOf(info, be.Y)
			if !isC || dir == nil || !isFunc(callee(info, call), "go/types", "Chan.Dir") {
				und = exprString(cond)
				continue
			}
			isRecv := exprString(be.Y) == "types.RecvOnly"
			if v, okc := constInt(info, be.Y); okc {
				isRecv = v == int64(types.RecvOnly)
			}
			holds := (be.Op == token.EQL) == isRecv // value of the condition when Dir() == RecvOnly
			if neg {
				holds = !holds
			}
			if !holds {
				ok = false
			}
		}
		if und != "" {
			c.Undecided(rule, key, cc.Pos(), "the parenthesisation of a %s conversion depends on `%s`, which the rule cannot evaluate", t, und)
			continue
		}
		c.Check(ok, rule, key, cc.Pos(), "a conversion to a receive-only channel type (and to every pointer type) must be parenthesised: `<-chan T(x)` parses as a receive from `chan T(x)`")
	}
	if !withPrinter {
		return
	}
	// the printer fork parenthesises func types in call position
	pp := c.Pkg("internal/go/printer")
	found := false
	for _, pfd := range c.Decls() {
		if c.PkgOfDecl(pfd) != pp || pfd.Name.Name != "expr1" {
			continue
		}
		inspectFunc(pfd, func(m ast.Node) bool {
			is, ok := m.(*ast.IfStmt)
			if !ok || is.Init == nil {
				return true
			}
			if strings.Contains(nodeText(is.Init), ".Fun.(*ast.FuncType)") {
				lp := false
				ast.Inspect(is.Body, func(k ast.Node) bool {
					if sel, ok := k.(*ast.SelectorExpr); ok && sel.Sel.Name == "LPAREN" {
						lp = true
					}
					return true
				})
				if lp {
					found = true
				}
			}
			return true
		})
	}
	c.Check(found, rule, "printer/func-type-callee-parenthesised", token.NoPos, "the printer must parenthesise a func type used as the callee of a conversion (`func()(x)` parses as a function literal header)")
}

// R12.4: the comment hook is consulted for every statement that is printed. All statements - list elements,
// the statement under a label, if/for/switch init and post statements, comm clauses - are printed through
// one function (the one that switches over every ast.Stmt kind). The lookup of the attached comment group,
// keyed by that very statement, sits in that function before the switch; in any narrower place (the
// statement-list loop) a comment attached to a labelled or header statement is never printed.
func r124(c *fw.Ctx) {
	const rule = "R12.4"
	pp := c.Pkg("internal/go/printer")
	info := pp.TypesInfo
	var dispatcher *ast.FuncDecl
	var sw *ast.TypeSwitchStmt
	var param types.Object
	for _, fd := range c.Decls() {
		if c.PkgOfDecl(fd) != pp || fd.Body == nil {
			continue
		}
		// a parameter of type ast.Stmt and a type switch over it with many cases
		var prm types.Object
		for _, f := range fd.Type.Params.List {
			for _, nm := range f.Names {
				if o := info.Defs[nm]; o != nil && namedIs(o.Type(), "go/ast", "Stmt") {
					prm = o
				}
			}
		}
		if prm == nil {
			continue
		}
		for _, st := range fd.Body.List {
			ts, ok := st.(*ast.TypeSwitchStmt)
			if !ok || len(ts.Body.List) < 15 {
				continue
			}
			dispatcher, sw, param = fd, ts, prm
		}
	}
	if dispatcher == nil {
		c.Undecided(rule, "printer/statement-dispatcher", token.NoPos, "the function that prints every kind of statement was not found")
		return
	}
	// lookups of the commented-statement table anywhere in the printer
	var inDispatcher, elsewhere []string
	hookOK := false
	for _, fd := range c.Decls() {
		if c.PkgOfDecl(fd) != pp || fd.Body == nil {
			continue
		}
		ast.Inspect(fd.Body, func(m ast.Node) bool {
			ix, ok := m.(*ast.IndexExpr)
			if !ok {
				return true
			}
			se, ok := unparen(ix.X).(*ast.SelectorExpr)
			if !ok {
				return true
			}
			fv, ok := info.Uses[se.Sel].(*types.Var)
			if !ok || !fv.IsField() || fv.Name() != "commentedStmts" {
				return true
			}
			if fd == dispatcher {
				inDispatcher = append(inDispatcher, exprString(ix))
				if id, ok := unparen(ix.Index).(*ast.Ident); ok && info.Uses[id] == param && ix.Pos() < sw.Pos() {
					hookOK = true
				}
			} else {
				elsewhere = append(elsewhere, declName(c, fd))
			}
			return true
		})
	}
	c.Check(hookOK, rule, "printer/comment-hook-in-statement-dispatcher", dispatcher.Pos(),
		"%s prints every kind of statement; the attached-comment lookup keyed by its statement parameter must sit there, before the switch (found in the dispatcher: %v, elsewhere: %v): otherwise comments of labelled statements and of if/for header statements are dropped", declName(c, dispatcher), inDispatcher, elsewhere)
}

// R12.5: a type parameter list with a single parameter `[P C]` is ambiguous with an array length when
// `P C` reads as an expression (`[P *C]`, `[P *C | D]`, `[P (C)]`); the printer then writes a trailing
// comma. Whether it does is decided by following the constraint's leftmost operand: pointer form, binary
// (union) form - recursively on its left operand - and parenthesised form must all be recognised.
func r125(c *fw.Ctx) {
	const rule = "R12.5"
	fd, p := needDecl(c, rule, "internal/go/printer:combinesWithName")
	if fd == nil {
		return
	}
	info := p.TypesInfo
	self, _ := info.Defs[fd.Name].(*types.Func)
	have := map[string]bool{}
	binRecursesLeft := false
	ast.Inspect(fd.Body, func(m ast.Node) bool {
		cc, ok := m.(*ast.CaseClause)
		if !ok {
			return true
		}
		for _, e := range cc.List {
			t := info.TypeOf(e)
			for _, k := range []string{"StarExpr", "BinaryExpr", "ParenExpr"} {
				if namedIs(t, "go/ast", k) {
					have[k] = true
					if k == "BinaryExpr" {
						ast.Inspect(cc, func(k2 ast.Node) bool {
							if call, ok := k2.(*ast.CallExpr); ok && callee(info, call) == types.Object(self) && len(call.Args) == 1 {
								if se, ok := unparen(call.Args[0]).(*ast.SelectorExpr); ok && se.Sel.Name == "X" {
									binRecursesLeft = true
								}
							}
							return true
						})
					}
				}
			}
		}
		return true
	})
	for _, k := range []string{"StarExpr", "BinaryExpr", "ParenExpr"} {
		c.Check(have[k], rule, "combinesWithName/recognises-"+k, fd.Pos(),
			"a constraint whose leftmost form is an *ast.%s can make `[P C]` read as an array length; it must be recognised so that the disambiguating comma is written (`type G[P *C | D] struct{}` otherwise parses back as an array type)", k)
	}
	c.Check(binRecursesLeft, rule, "combinesWithName/binary-follows-left-operand", fd.Pos(), "for a union constraint the decision is that of its left operand")
}
