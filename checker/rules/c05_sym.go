package rules

import (
	"go/ast"
	"go/token"
	"go/types"

	"gogenvet/fw"
)

// comparableBothDirections (R5.4 / R2.4): Go spec, Comparison operators: "the first operand must be
// assignable to the type of the second operand, or vice versa". In ComparableTo, the assignability
// predicate must be asked in both directions, each time with the operand that belongs to the source
// side: {AssignableConv(A.Type, B.Type, A), AssignableConv(B.Type, A.Type, B)} for the two operands A, B.
func comparableBothDirections(c *fw.Ctx, rule string) {
	fd, p := needDecl(c, rule, "ComparableTo")
	if fd == nil {
		return
	}
	info := p.TypesInfo
	// the two operand parameters
	var ops []types.Object
	for _, f := range fd.Type.Params.List {
		for _, n := range f.Names {
			if o := info.Defs[n]; o != nil && isElemPtr(o.Type()) {
				ops = append(ops, o)
			}
		}
	}
	if len(ops) != 2 {
		c.Undecided(rule, "ComparableTo/shape", fd.Pos(), "ComparableTo no longer takes two operands")
		return
	}
	// local aliases of the operand types: V, T := varg.Type, targ.Type
	typeOf := map[types.Object]types.Object{} // local -> operand whose .Type it holds
	nAssign := map[types.Object]int{}
	ast.Inspect(fd.Body, func(n ast.Node) bool {
		as, ok := n.(*ast.AssignStmt)
		if !ok || len(as.Lhs) != len(as.Rhs) {
			return true
		}
		for i, l := range as.Lhs {
			id, ok := unparen(l).(*ast.Ident)
			if !ok {
				continue
			}
			lo := info.Defs[id]
			if lo == nil {
				lo = info.Uses[id]
			}
			nAssign[lo]++
			if se, ok := unparen(as.Rhs[i]).(*ast.SelectorExpr); ok && se.Sel.Name == "Type" {
				if x, ok := unparen(se.X).(*ast.Ident); ok {
					for _, op := range ops {
						if info.Uses[x] == op {
							typeOf[lo] = op
						}
					}
				}
			}
		}
		return true
	})
	side := func(e ast.Expr) types.Object { // which operand's type does e denote?
		e = unparen(e)
		if se, ok := e.(*ast.SelectorExpr); ok && se.Sel.Name == "Type" {
			if x, ok := unparen(se.X).(*ast.Ident); ok {
				for _, op := range ops {
					if info.Uses[x] == op {
						return op
					}
				}
			}
		}
		if id, ok := e.(*ast.Ident); ok {
			o := info.Uses[id]
			if nAssign[o] == 1 {
				return typeOf[o]
			}
		}
		return nil
	}
	operand := func(e ast.Expr) types.Object {
		if id, ok := unparen(e).(*ast.Ident); ok {
			for _, op := range ops {
				if info.Uses[id] == op {
					return op
				}
			}
		}
		return nil
	}
	type dir struct{ from, to types.Object }
	asked := map[dir]bool{}
	var mixed []string
	n := 0
	ast.Inspect(fd.Body, func(m ast.Node) bool {
		call, ok := m.(*ast.CallExpr)
		if !ok || !isFunc(callee(info, call), fw.Mod, "AssignableConv") || len(call.Args) != 4 {
			return true
		}
		n++
		from, to, pv := side(call.Args[1]), side(call.Args[2]), operand(call.Args[3])
		if from != nil && to != nil && from != to && pv == from {
			asked[dir{from, to}] = true
		} else {
			mixed = append(mixed, exprString(call))
		}
		return true
	})
	if n == 0 {
		c.Undecided(rule, "ComparableTo/assignability", fd.Pos(), "ComparableTo no longer asks AssignableConv: the rule does not recognise how mutual assignability is decided")
		return
	}
	both := asked[dir{ops[0], ops[1]}] && asked[dir{ops[1], ops[0]}]
	detail := ""
	if len(mixed) > 0 {
		detail = "; calls that pair a source type with the other side's operand or repeat a direction: " + join(mixed)
	}
	c.Check(both, rule, "ComparableTo/assignable-in-both-directions", fd.Pos(),
		"mutual assignability must be asked first->second and second->first, each with the operand of its source side (asked: %d->%d %v, %d->%d %v)%s: otherwise `iface == concrete` and `concrete == iface` get different verdicts",
		1, 2, asked[dir{ops[0], ops[1]}], 2, 1, asked[dir{ops[1], ops[0]}], detail)
	// the untyped-operand arms: untypedComparable(pkg, b, pv, other) where b is the *types.Basic form of one
	// operand's type must be given that same operand (its constant decides e.g. whether 2.0 is integral) and
	// the other operand's type
	basicOf := map[types.Object]types.Object{} // v (from V.(*types.Basic)) -> operand
	ast.Inspect(fd.Body, func(m ast.Node) bool {
		as, ok := m.(*ast.AssignStmt)
		if !ok || len(as.Rhs) != 1 || len(as.Lhs) < 1 {
			return true
		}
		ta, ok := unparen(as.Rhs[0]).(*ast.TypeAssertExpr)
		if !ok || ta.Type == nil {
			return true
		}
		if id, ok := as.Lhs[0].(*ast.Ident); ok {
			if s := side(ta.X); s != nil && info.Defs[id] != nil {
				basicOf[info.Defs[id]] = s
			}
		}
		return true
	})
	nu, okU := 0, true
	bad := ""
	ast.Inspect(fd.Body, func(m ast.Node) bool {
		call, ok := m.(*ast.CallExpr)
		if !ok || !isFunc(callee(info, call), fw.Mod, "untypedComparable") || len(call.Args) != 4 {
			return true
		}
		nu++
		var b types.Object
		if id, ok := unparen(call.Args[1]).(*ast.Ident); ok {
			b = basicOf[info.Uses[id]]
		}
		pv, other := operand(call.Args[2]), side(call.Args[3])
		if b == nil || pv != b || other == nil || other == b {
			okU = false
			bad = exprString(call)
		}
		return true
	})
	if nu > 0 {
		c.Check(okU && nu >= 2, rule, "ComparableTo/untyped-arms-pair-operand-with-its-type", fd.Pos(),
			"each untyped-operand arm must pass the untyped operand itself together with its basic type and the other side's type (%d arms); mismatched: %s — `x == 2.0` and `2.0 == x` would get different verdicts", nu, bad)
	}
	_ = token.NoPos
}
