package rules

import (
	"go/ast"
	"go/constant"
	"go/token"
	"go/types"
	"math/big"

	"golang.org/x/tools/go/packages"

	"gogenvet/fw"
)

func init() {
	register("C05", Prop{
		NeedSSA: false,
		Run:     runC05,
		Explanation: "R5.1 the representability table tkindRanges equals the Go spec's integer ranges for the analysed GOARCH, is consulted only through order comparisons whose truth table over the five orderings of (constant, lo, hi) equals `c<lo || c>hi`, and its guard admits exactly the populated rows; " +
			"R5.2 the basic-kind masks equal go/types' classification (types.Typ[k].Info()); " +
			"R5.3 every acceptance decision on an operand that can carry a constant asks the constant-aware predicate (AssignableConv/matchType with the operand), not the type-only one",
		NotDecided: "the verdict on every pair of types (e.g. asymmetry of ComparableTo on two untyped operands, `0.5 != 1`); the spec conformance of go/types' own AssignableTo/ConvertibleTo, which the predicates delegate to",
	})
}

func runC05(c *fw.Ctx) {
	r51(c)
	r52(c)
	r53(c)
	comparableBothDirections(c, "R5.4")
}

func bigPow2(n int) *big.Int { return new(big.Int).Lsh(big.NewInt(1), uint(n)) }

// specIntRange returns the Go-spec range of an integer basic kind for the given sizes.
func specIntRange(k types.BasicKind, sizes types.Sizes) (lo, hi constant.Value, ok bool) {
	t := types.Typ[k]
	if t.Info()&types.IsInteger == 0 || t.Info()&types.IsUntyped != 0 {
		return nil, nil, false
	}
	bits := int(sizes.Sizeof(t)) * 8
	if t.Info()&types.IsUnsigned != 0 {
		return constant.MakeInt64(0), constant.Make(new(big.Int).Sub(bigPow2(bits), big.NewInt(1))), true
	}
	return constant.Make(new(big.Int).Neg(bigPow2(bits - 1))), constant.Make(new(big.Int).Sub(bigPow2(bits-1), big.NewInt(1))), true
}

// constMakerArg: e is constant.MakeInt64(X)/MakeUint64(X)/... with constant X; returns X's exact value.
func constMakerArg(p *packages.Package, e ast.Expr) (constant.Value, bool) {
	call, ok := unparen(e).(*ast.CallExpr)
	if !ok || len(call.Args) != 1 {
		return nil, false
	}
	fn, ok := callee(p.TypesInfo, call).(*types.Func)
	if !ok || fn.Pkg() == nil || fn.Pkg().Path() != "go/constant" {
		return nil, false
	}
	switch fn.Name() {
	case "MakeInt64", "MakeUint64":
	default:
		return nil, false
	}
	v := constOf(p.TypesInfo, call.Args[0])
	if v == nil {
		return nil, false
	}
	return constant.ToInt(v), true
}

func r51(c *fw.Ctx) {
	const rule = "R5.1"
	p := c.Pkg("")
	init, tbl := pkgVarInit(p, "tkindRanges")
	if tbl == nil || init == nil {
		c.Undecided(rule, "anchor/tkindRanges", token.NoPos, "representability table not found")
		return
	}
	lit, ok := unparen(init).(*ast.CompositeLit)
	if !ok {
		c.Undecided(rule, "tkindRanges/shape", init.Pos(), "table is not a composite literal")
		return
	}
	rows := map[types.BasicKind]bool{}
	maxKey := int64(-1)
	for _, el := range lit.Elts {
		kv, ok := el.(*ast.KeyValueExpr)
		if !ok {
			c.Undecided(rule, "tkindRanges/row-shape", el.Pos(), "row without a constant key")
			continue
		}
		k, ok := constInt(p.TypesInfo, kv.Key)
		if !ok {
			c.Undecided(rule, "tkindRanges/row-key", kv.Key.Pos(), "row key %s is not a constant", exprString(kv.Key))
			continue
		}
		if k > maxKey {
			maxKey = k
		}
		kind := types.BasicKind(k)
		name := "kind" + sprintf("%d", k)
		if k >= 0 && int(k) < len(types.Typ) && types.Typ[kind] != nil {
			name = types.Typ[kind].Name()
		}
		lo, hi, isInt := specIntRange(kind, p.TypesSizes)
		if !isInt {
			c.Violate(rule, "tkindRanges/"+name+"/extra-row", kv.Pos(), "row for %s, which is not a sized integer kind", name)
			continue
		}
		rows[kind] = true
		pair, ok := unparen(kv.Value).(*ast.CompositeLit)
		if !ok || len(pair.Elts) != 2 {
			c.Undecided(rule, "tkindRanges/"+name+"/shape", kv.Value.Pos(), "row is not a {lo, hi} pair")
			continue
		}
		gotLo, ok1 := constMakerArg(p, pair.Elts[0])
		gotHi, ok2 := constMakerArg(p, pair.Elts[1])
		if !ok1 || !ok2 {
			c.Undecided(rule, "tkindRanges/"+name+"/values", kv.Value.Pos(), "bounds are not constant.Make*(constant) calls")
			continue
		}
		c.Check(constant.Compare(gotLo, token.EQL, lo), rule, "tkindRanges/"+name+"/lo", pair.Elts[0].Pos(),
			"lower bound of %s is %s, Go spec (word size of GOARCH) says %s", name, gotLo, lo)
		c.Check(constant.Compare(gotHi, token.EQL, hi), rule, "tkindRanges/"+name+"/hi", pair.Elts[1].Pos(),
			"upper bound of %s is %s, Go spec (word size of GOARCH) says %s", name, gotHi, hi)
	}
	// exhaustive: every sized integer kind has a row
	var maxIntKind types.BasicKind
	for k := types.BasicKind(1); k < types.UntypedBool; k++ {
		if _, _, isInt := specIntRange(k, p.TypesSizes); isInt {
			c.Check(rows[k], rule, "tkindRanges/"+types.Typ[k].Name()+"/present", lit.Pos(), "integer kind %s must have a row", types.Typ[k].Name())
			if k > maxIntKind {
				maxIntKind = k
			}
		}
	}
	c.Floor(rule, "table rows", len(rows), 11)

	// the table is read only inside one function, through order comparisons
	var reader *ast.FuncDecl
	for _, id := range usesOf(c, tbl) {
		fd := enclosingFunc(c, id.Pos())
		if fd == nil {
			c.Violate(rule, "tkindRanges/use/package-level", id.Pos(), "table used outside a function")
			continue
		}
		if reader == nil {
			reader = fd
		} else if reader != fd {
			c.Violate(rule, "tkindRanges/use/"+declName(c, fd), id.Pos(), "table is read by a second function %s; R5.1 decides only one reader", declName(c, fd))
		}
	}
	if reader == nil {
		c.Undecided(rule, "tkindRanges/reader", token.NoPos, "no function reads the table")
		return
	}
	r51reader(c, p, reader, tbl)
	r51guard(c, p, reader, int64(maxIntKind), maxKey)
}

// r51reader checks that the reader returns exactly `c<lo || c>hi` (as a truth table
// over the five orderings), apart from early `return false` exits.
func r51reader(c *fw.Ctx, p *packages.Package, fd *ast.FuncDecl, tbl *types.Var) {
	const rule = "R5.1"
	info := p.TypesInfo
	name := declName(c, fd)
	if fd.Type.Params == nil || len(fd.Type.Params.List) == 0 {
		c.Undecided(rule, name+"/shape", fd.Pos(), "reader has no parameters")
		return
	}
	var params []types.Object
	for _, f := range fd.Type.Params.List {
		for _, n := range f.Names {
			params = append(params, info.Defs[n])
		}
	}
	if len(params) != 2 {
		c.Undecided(rule, name+"/shape", fd.Pos(), "reader does not have the (kind, constant) parameters")
		return
	}
	kindParam, cvalParam := params[0], params[1]
	// row variable: rg := tbl[kindParam]
	var rowVar types.Object
	isRow := func(e ast.Expr) bool {
		e = unparen(e)
		if id, ok := e.(*ast.Ident); ok && rowVar != nil && info.Uses[id] == rowVar {
			return true
		}
		if ix, ok := e.(*ast.IndexExpr); ok {
			if id, ok := unparen(ix.X).(*ast.Ident); ok && info.Uses[id] == tbl {
				if k, ok := unparen(ix.Index).(*ast.Ident); ok && info.Uses[k] == kindParam {
					return true
				}
			}
		}
		return false
	}
	// classify an expression as "c", "lo", "hi"
	classify := func(e ast.Expr) string {
		e = unparen(e)
		if id, ok := e.(*ast.Ident); ok && info.Uses[id] == cvalParam {
			return "c"
		}
		if ix, ok := e.(*ast.IndexExpr); ok && isRow(ix.X) {
			if k, ok := constInt(info, ix.Index); ok {
				if k == 0 {
					return "lo"
				} else if k == 1 {
					return "hi"
				}
			}
		}
		return ""
	}
	// value of c, lo, hi in each of the five orderings (lo=1, hi=3)
	orderings := []int{0, 1, 2, 3, 4}
	val := func(cls string, c int) int {
		switch cls {
		case "lo":
			return 1
		case "hi":
			return 3
		}
		return c
	}
	var eval func(e ast.Expr, cv int) (bool, bool)
	eval = func(e ast.Expr, cv int) (res, ok bool) {
		e = unparen(e)
		switch x := e.(type) {
		case *ast.BinaryExpr:
			a, ok1 := eval(x.X, cv)
			b, ok2 := eval(x.Y, cv)
			if !ok1 || !ok2 {
				return false, false
			}
			switch x.Op {
			case token.LOR:
				return a || b, true
			case token.LAND:
				return a && b, true
			}
			return false, false
		case *ast.UnaryExpr:
			if x.Op == token.NOT {
				a, ok := eval(x.X, cv)
				return !a, ok
			}
		case *ast.CallExpr:
			fn, _ := callee(info, x).(*types.Func)
			if fn == nil || fn.Pkg() == nil || fn.Pkg().Path() != "go/constant" || fn.Name() != "Compare" || len(x.Args) != 3 {
				return false, false
			}
			a, b := classify(x.Args[0]), classify(x.Args[2])
			op, okop := constInt(info, x.Args[1])
			if a == "" || b == "" || !okop {
				return false, false
			}
			av, bv := val(a, cv), val(b, cv)
			switch token.Token(op) {
			case token.LSS:
				return av < bv, true
			case token.LEQ:
				return av <= bv, true
			case token.GTR:
				return av > bv, true
			case token.GEQ:
				return av >= bv, true
			case token.EQL:
				return av == bv, true
			case token.NEQ:
				return av != bv, true
			}
		}
		return false, false
	}
	decided := false
	for _, st := range fd.Body.List {
		switch s := st.(type) {
		case *ast.AssignStmt:
			if len(s.Lhs) == 1 && len(s.Rhs) == 1 && isRow(s.Rhs[0]) {
				if id, ok := s.Lhs[0].(*ast.Ident); ok {
					if s.Tok == token.DEFINE {
						rowVar = info.Defs[id]
					} else {
						rowVar = info.Uses[id]
					}
					continue
				}
			}
			c.Undecided(rule, name+"/stmt", s.Pos(), "unrecognised statement in the table reader")
		case *ast.IfStmt:
			// early exit `if <cond about c only> { return false }` : accepting more, never rejecting wrongly
			okExit := s.Else == nil && s.Init == nil && len(s.Body.List) == 1
			if okExit {
				if r, ok := s.Body.List[0].(*ast.ReturnStmt); ok && len(r.Results) == 1 {
					if v := constOf(info, r.Results[0]); v != nil && v.Kind() == constant.Bool && !constant.BoolVal(v) {
						// condition must be `cval == nil`
						if be, ok := unparen(s.Cond).(*ast.BinaryExpr); ok && be.Op == token.EQL && classify(be.X) == "c" {
							if id, ok := unparen(be.Y).(*ast.Ident); ok && id.Name == "nil" {
								continue
							}
						}
					}
				}
			}
			c.Undecided(rule, name+"/early-exit", s.Pos(), "unrecognised early exit in the table reader (only `if c == nil { return false }` is understood)")
		case *ast.ReturnStmt:
			if len(s.Results) != 1 {
				c.Undecided(rule, name+"/return", s.Pos(), "unexpected return arity")
				continue
			}
			decided = true
			allOK := true
			for _, cv := range orderings {
				got, ok := eval(s.Results[0], cv)
				if !ok {
					c.Undecided(rule, name+"/verdict", s.Pos(), "verdict expression %s is not a boolean combination of order comparisons between the constant and the row bounds", exprString(s.Results[0]))
					allOK = false
					break
				}
				want := cv < 1 || cv > 3
				if got != want {
					c.Violate(rule, name+"/verdict", s.Pos(), "out-of-range verdict is %v for ordering #%d of (c, lo, hi) [0:c<lo 1:c=lo 2:lo<c<hi 3:c=hi 4:c>hi], the spec says %v", got, cv, want)
					allOK = false
					break
				}
			}
			if allOK {
				c.OK(rule, name+"/verdict", s.Pos(), "verdict %s == (c<lo || c>hi) on all five orderings", exprString(s.Results[0]))
			}
		default:
			c.Undecided(rule, name+"/stmt", st.Pos(), "unrecognised statement in the table reader")
		}
	}
	if !decided {
		c.Undecided(rule, name+"/verdict", fd.Pos(), "no verdict expression found")
	}
}

// r51guard: every call of the reader is guarded by `kind <= K` with K = the last populated
// row, passes the operand's CVal, and its true verdict leads to rejection.
func r51guard(c *fw.Ctx, p *packages.Package, reader *ast.FuncDecl, maxIntKind, maxKey int64) {
	const rule = "R5.1"
	info := p.TypesInfo
	rfn := info.Defs[reader.Name]
	n := 0
	for _, id := range usesOf(c, rfn) {
		fd := enclosingFunc(c, id.Pos())
		if fd == nil {
			continue
		}
		n++
		fname := declName(c, fd)
		key := fname + "/call-" + reader.Name.Name
		// find the enclosing if statement whose condition contains the call
		var found *ast.IfStmt
		inspectFunc(fd, func(nd ast.Node) bool {
			if is, ok := nd.(*ast.IfStmt); ok && is.Cond.Pos() <= id.Pos() && id.Pos() < is.Cond.End() {
				found = is
			}
			return true
		})
		if found == nil {
			c.Undecided(rule, key, id.Pos(), "range verdict is not the condition of an if statement")
			continue
		}
		// flatten && chain
		var conj []ast.Expr
		var flat func(e ast.Expr)
		flat = func(e ast.Expr) {
			e = unparen(e)
			if be, ok := e.(*ast.BinaryExpr); ok && be.Op == token.LAND {
				flat(be.X)
				flat(be.Y)
				return
			}
			conj = append(conj, e)
		}
		flat(found.Cond)
		var call *ast.CallExpr
		callIdx := -1
		for i, e := range conj {
			if ce, ok := e.(*ast.CallExpr); ok {
				if f, ok := unparen(ce.Fun).(*ast.Ident); ok && f == id {
					call, callIdx = ce, i
				}
			}
		}
		if call == nil || len(call.Args) != 2 {
			c.Undecided(rule, key, id.Pos(), "range verdict is not a positive conjunct of the if condition")
			continue
		}
		kindArg, _ := unparen(call.Args[0]).(*ast.Ident)
		guardOK := false
		for _, e := range conj[:callIdx] {
			be, ok := e.(*ast.BinaryExpr)
			if !ok {
				continue
			}
			x, ok := unparen(be.X).(*ast.Ident)
			if !ok || kindArg == nil || info.Uses[x] != info.Uses[kindArg] {
				continue
			}
			k, ok := constInt(info, be.Y)
			if !ok {
				continue
			}
			bound := int64(-1)
			switch be.Op {
			case token.LEQ:
				bound = k
			case token.LSS:
				bound = k - 1
			default:
				continue
			}
			guardOK = true
			c.Check(bound >= maxIntKind, rule, key+"/guard-admits-all-rows", be.Pos(),
				"guard admits kinds up to %d; the last sized integer kind is %d (kinds above the guard are never range-checked)", bound, maxIntKind)
			c.Check(bound <= maxKey, rule, key+"/guard-within-table", be.Pos(),
				"guard admits kinds up to %d; the table has rows up to %d (index out of range otherwise)", bound, maxKey)
		}
		if !guardOK {
			c.Violate(rule, key+"/guard", found.Cond.Pos(), "call of the range verdict is not guarded by an upper bound on the kind")
		}
		// second argument is the operand's constant
		if _, ok := isSelector(call.Args[1], "CVal"); !ok {
			c.Violate(rule, key+"/constant-arg", call.Args[1].Pos(), "range verdict is not asked about the operand's CVal")
		} else {
			c.OK(rule, key+"/constant-arg", call.Args[1].Pos(), "verdict is asked about the operand's constant")
		}
		// true verdict rejects: body ends in `return false`
		rejects := false
		if len(found.Body.List) > 0 {
			if r, ok := found.Body.List[len(found.Body.List)-1].(*ast.ReturnStmt); ok && len(r.Results) == 1 {
				if v := constOf(info, r.Results[0]); v != nil && v.Kind() == constant.Bool && !constant.BoolVal(v) {
					rejects = true
				}
			}
		}
		c.Check(rejects, rule, key+"/rejects", found.Body.Pos(), "an out-of-range verdict must make the predicate return false")
	}
	c.Floor(rule, "verdict call sites", n, 1)
}

func r52(c *fw.Ctx) {
	const rule = "R5.2"
	p := c.Pkg("")
	mask := func(flag types.BasicInfo) uint64 {
		var m uint64
		for k := types.BasicKind(1); k <= types.UntypedNil; k++ {
			if types.Typ[k].Info()&flag != 0 {
				m |= 1 << uint(k)
			}
		}
		return m
	}
	I, F, C, S, B := mask(types.IsInteger), mask(types.IsFloat), mask(types.IsComplex), mask(types.IsString), mask(types.IsBoolean)
	want := map[string]uint64{
		"kindsInteger": I, "kindsFloat": F, "kindsComplex": C, "kindsString": S, "kindsBool": B,
		"kindsNumber": I | F | C, "kindsAddable": I | F | C | S, "kindsOrderable": I | F | S,
	}
	n := 0
	for _, name := range sortedKeys(want) {
		obj, _ := p.Types.Scope().Lookup(name).(*types.Const)
		if obj == nil {
			c.Undecided(rule, name, token.NoPos, "mask constant %s not found", name)
			continue
		}
		n++
		got, ok := constant.Uint64Val(constant.ToInt(obj.Val()))
		c.Check(ok && got == want[name], rule, name, obj.Pos(), "%s = %#x, go/types classification gives %#x", name, got, want[name])
	}
	c.Floor(rule, "mask constants", n, 8)
}

// r53: acceptance decisions on operands must use the constant-aware predicate.
func r53(c *fw.Ctx) {
	const rule = "R5.3"
	p := c.Pkg("")
	info := p.TypesInfo
	typeOnly := func(obj types.Object) (vIdx, tIdx int, ok bool) {
		if isFunc(obj, fw.Mod, "AssignableTo") {
			return 1, 2, true
		}
		if isFunc(obj, "go/types", "AssignableTo") {
			return 0, 1, true
		}
		return 0, 0, false
	}
	sites, aware := 0, 0
	for _, fd := range c.Decls() {
		if c.PkgOfDecl(fd) != p {
			continue
		}
		fname := declName(c, fd)
		// the predicates themselves are the implementation, not clients
		if fname == "AssignableTo" || fname == "AssignableConv" || fname == "assignableTo" {
			continue
		}
		idx := map[string]int{}
		inspectFunc(fd, func(n ast.Node) bool {
			call, ok := n.(*ast.CallExpr)
			if !ok {
				return true
			}
			obj := callee(info, call)
			if isFunc(obj, fw.Mod, "AssignableConv") || isFunc(obj, fw.Mod, "matchType") {
				aware++
				return true
			}
			vi, ti, ok := typeOnly(obj)
			if !ok {
				return true
			}
			// V must be the Type field of an operand
			x, ok := isSelector(call.Args[vi], "Type")
			if !ok || !isElemPtr(info.TypeOf(x)) {
				return true
			}
			sites++
			opnd := exprString(x)
			idx[opnd]++
			key := sprintf("%s/%s(%s.Type)#%d", fname, obj.Name(), opnd, idx[opnd])
			// T == types.Typ[types.Bool]: a constant operand of bool type is always representable
			if ix, ok := unparen(call.Args[ti]).(*ast.IndexExpr); ok {
				if k, ok := constInt(info, ix.Index); ok && types.BasicKind(k) == types.Bool {
					if s, ok := unparen(ix.X).(*ast.SelectorExpr); ok && s.Sel.Name == "Typ" {
						c.OK(rule, key, call.Pos(), "target is bool: no representability question")
						return true
					}
				}
			}
			// selection between candidate types (not an acceptance decision): the result does not
			// lead to an error report. Acceptance decision = negated call as an if condition whose
			// body panics/returns an error/calls an error reporter.
			if !leadsToErrorReport(p, fd, call) {
				c.OK(rule, key, call.Pos(), "verdict chooses between candidate types; no rejection depends on it")
				return true
			}
			c.Violate(rule, key, call.Pos(), "acceptance of operand %s is decided by the type-only predicate %s: an untyped constant out of the target's range is accepted", opnd, obj.Name())
			return true
		})
	}
	c.Floor(rule, "type-only predicate calls on operands", sites, 5)
	c.Floor(rule, "constant-aware predicate calls", aware, 4)
}

// leadsToErrorReport: call is (possibly negated) condition of an if whose taken branch
// contains a panic, a call of an error-reporting helper, or returns a non-nil error.
func leadsToErrorReport(p *packages.Package, fd *ast.FuncDecl, call *ast.CallExpr) bool {
	info := p.TypesInfo
	var is *ast.IfStmt
	inspectFunc(fd, func(n ast.Node) bool {
		if s, ok := n.(*ast.IfStmt); ok && s.Cond.Pos() <= call.Pos() && call.End() <= s.Cond.End() {
			is = s
		}
		return true
	})
	if is == nil {
		return false
	}
	reports := false
	ast.Inspect(is.Body, func(n ast.Node) bool {
		switch x := n.(type) {
		case *ast.CallExpr:
			if id, ok := unparen(x.Fun).(*ast.Ident); ok && id.Name == "panic" {
				if _, isB := info.Uses[id].(*types.Builtin); isB {
					reports = true
				}
			}
			if fn, ok := callee(info, x).(*types.Func); ok {
				switch fn.Name() {
				case "panicCodeError", "panicCodeErrorf", "handleCodeError", "handleCodeErrorf", "newCodeError", "newCodeErrorf", "handleErr":
					reports = true
				}
			}
		case *ast.ReturnStmt:
			for _, r := range x.Results {
				if t := info.TypeOf(r); t != nil && types.Identical(t, types.Universe.Lookup("error").Type()) {
					if id, ok := unparen(r).(*ast.Ident); !ok || id.Name != "nil" {
						reports = true
					}
				}
			}
		case *ast.CompositeLit:
			if namedIs(info.TypeOf(x), fw.Mod, "MatchError") || namedIs(info.TypeOf(x), fw.Mod, "CodeError") {
				reports = true
			}
		}
		return true
	})
	return reports
}
