package rules

import (
	"go/ast"
	"go/types"

	"gogenvet/fw"
)

// R7.4: the outcome of an inference belongs to that call. In `infer`, every value returned as the error
// (and as the result) must be produced during the current invocation: a local variable or named result
// written by this invocation (possibly from the checker's error callback created in it), nil, or a call
// result - never a field of an object that outlives the call (a cached checker's sticky error).
func r74(c *fw.Ctx) {
	const rule = "R7.4"
	fd, p := needDecl(c, rule, "infer")
	if fd == nil {
		return
	}
	info := p.TypesInfo
	params := map[types.Object]bool{}
	for _, f := range fd.Type.Params.List {
		for _, n := range f.Names {
			params[info.Defs[n]] = true
		}
	}
	// locals whose value may come from memory reachable from a parameter (x := pkg.f, x = pkg.f)
	fromParam := map[types.Object]bool{}
	rootedAtParam := func(e ast.Expr) bool {
		for {
			e = unparen(e)
			switch x := e.(type) {
			case *ast.SelectorExpr:
				e = x.X
			case *ast.IndexExpr:
				e = x.X
			case *ast.StarExpr:
				e = x.X
			case *ast.Ident:
				o := info.Uses[x]
				return params[o] || fromParam[o]
			default:
				return false
			}
		}
	}
	for iter := 0; iter < 4; iter++ {
		ast.Inspect(fd.Body, func(n ast.Node) bool {
			as, ok := n.(*ast.AssignStmt)
			if !ok || len(as.Lhs) != len(as.Rhs) {
				return true
			}
			for i, l := range as.Lhs {
				id, ok := unparen(l).(*ast.Ident)
				if !ok {
					continue
				}
				o := info.Defs[id]
				if o == nil {
					o = info.Uses[id]
				}
				if _, isSel := unparen(as.Rhs[i]).(*ast.SelectorExpr); isSel && rootedAtParam(as.Rhs[i]) {
					if _, isPtr := o.Type().Underlying().(*types.Pointer); isPtr {
						fromParam[o] = true
					}
				}
			}
			return true
		})
	}
	nRet := 0
	ok := true
	why := ""
	check := func(e ast.Expr) {
		e = unparen(e)
		if _, isSel := e.(*ast.SelectorExpr); isSel && rootedAtParam(e) {
			ok = false
			why = exprString(e)
		}
	}
	ast.Inspect(fd.Body, func(n ast.Node) bool {
		switch x := n.(type) {
		case *ast.FuncLit:
			// stores made by the error callback: into a field of something that outlives the call?
			ast.Inspect(x.Body, func(m ast.Node) bool {
				if as, isAs := m.(*ast.AssignStmt); isAs {
					for _, l := range as.Lhs {
						if _, isSel := unparen(l).(*ast.SelectorExpr); isSel && rootedAtParam(l) {
							ok = false
							why = "the error callback stores into " + exprString(l)
						}
					}
				}
				return true
			})
		case *ast.ReturnStmt:
			nRet++
			for _, e := range x.Results {
				check(e)
			}
		case *ast.AssignStmt:
			// named results assigned from persistent storage
			if fd.Type.Results != nil {
				for i, l := range x.Lhs {
					if id, isId := unparen(l).(*ast.Ident); isId && i < len(x.Rhs) && len(x.Lhs) == len(x.Rhs) {
						for _, f := range fd.Type.Results.List {
							for _, nm := range f.Names {
								if info.Uses[id] == info.Defs[nm] {
									check(x.Rhs[i])
								}
							}
						}
					}
				}
			}
		}
		return true
	})
	if nRet == 0 {
		c.Undecided(rule, "infer/returns", fd.Pos(), "no return statement found")
		return
	}
	c.Check(ok, rule, "infer/outcome-belongs-to-the-call", fd.Pos(),
		"the result and error of an inference must be produced by the current call; `%s` reads memory that outlives it (reachable from a parameter): an error of an earlier, failed inference can be reported for a later valid one", why)
}

// R7.5: a partially instantiated generic function value carries the placeholder type *inferFuncType until
// something forces the deferred inference. Every place that accepts an operand's type as final must
// recognise the placeholder and force (or complete) the inference. The instances are those confirmed on
// the pinned tree; each must still test for the placeholder and call an instantiation on that path.
func r75(c *fw.Ctx) {
	const rule = "R7.5"
	sites := []struct{ fn, why string }{
		{"matchFuncCall", "calling the value completes the inference with the call's arguments"},
		{"matchType", "passing the value where a function type is expected instantiates it against that type"},
		{"DefaultConv", "inferring a declaration's type from the value (x := f[T]) forces the inference"},
		{"AssignableConv", "assignability of the value is decided on the instantiated signature"},
		{"checkAssignType", "assigning the value to the blank identifier (no target type) must still force the inference: `_ = f[T]` with an un-inferable parameter is an error in Go"},
	}
	forcing := map[string]bool{"Instance": true, "InstanceWithArgs": true, "instanceInferFunc": true}
	for _, s := range sites {
		fd, p := needDecl(c, rule, s.fn)
		if fd == nil {
			continue
		}
		info := p.TypesInfo
		handled := false
		// a type switch case or a type assertion on *inferFuncType whose body calls an instantiation
		ast.Inspect(fd.Body, func(n ast.Node) bool {
			var body ast.Node
			switch x := n.(type) {
			case *ast.CaseClause:
				for _, e := range x.List {
					if tv, ok := info.Types[e]; ok && tv.IsType() && namedIs(tv.Type, fw.Mod, "inferFuncType") {
						body = x
					}
				}
			case *ast.IfStmt:
				if as, ok := x.Init.(*ast.AssignStmt); ok && len(as.Rhs) == 1 {
					if ta, ok := unparen(as.Rhs[0]).(*ast.TypeAssertExpr); ok && ta.Type != nil && namedIs(info.TypeOf(ta.Type), fw.Mod, "inferFuncType") {
						body = x.Body
					}
				}
			}
			if body != nil {
				ast.Inspect(body, func(m ast.Node) bool {
					if call, ok := m.(*ast.CallExpr); ok {
						if fn, _ := callee(info, call).(*types.Func); fn != nil && fn.Pkg() != nil && fn.Pkg().Path() == fw.Mod && forcing[fn.Name()] {
							handled = true
						}
					}
					return true
				})
			}
			return true
		})
		c.Check(handled, rule, s.fn+"/forces-deferred-inference", fd.Pos(),
			"%s must recognise the placeholder type of a partially instantiated generic function and force its inference (%s)", s.fn, s.why)
	}
}
