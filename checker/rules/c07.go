package rules

import (
	"go/ast"
	"go/constant"
	"go/token"
	"go/types"
	"strings"

	"gogenvet/fw"
)

func init() {
	register("C07", Prop{
		NeedSSA: false,
		Run:     runC07,
		Explanation: "R7.1 the hand-built mirrors of go/types internals that the builder passes through go:linkname (operand, operandMode constants, errorDesc, error_, positioner, the signatures of Checker.infer and Checker.validType, the CannotInferTypeArgs code) are structurally equal to the declarations in the go/types source of the GOROOT in use; " +
			"R7.2 every types.Instantiate call validates (validate == true) and every inference/instantiation error is consumed; " +
			"R7.3 the operand handed to inference for argument i takes its expression, type and constant from the same args[i], in mode `value`",
		NotDecided: "inference results themselves (go/types' algorithm is trusted); partial explicit instantiation semantics",
	})
}

func runC07(c *fw.Ctx) {
	r71(c)
	r72(c)
	r73(c)
	r74(c)
	r75(c)
}

type mirrorCmp struct {
	repo, std *types.Package
	errs      *types.Package
	seen      map[[2]types.Type]bool
	why       string
}

func (m *mirrorCmp) fail(f string, a ...any) bool {
	if m.why == "" {
		m.why = sprintf(f, a...)
	}
	return false
}

// eq compares a repo type r with a go/types-internal type s under the mapping
// "same-named declaration in the other package".
func (m *mirrorCmp) eq(r, s types.Type) bool {
	r, s = types.Unalias(r), types.Unalias(s)
	k := [2]types.Type{r, s}
	if m.seen[k] {
		return true
	}
	m.seen[k] = true
	if types.Identical(r, s) {
		return true
	}
	rn, rok := r.(*types.Named)
	sn, sok := s.(*types.Named)
	switch {
	case rok && sok:
		if rn.Obj().Pkg() == m.repo && sn.Obj().Pkg() == m.std {
			if rn.Obj().Name() != sn.Obj().Name() {
				return m.fail("mirror type %s stands for %s", rn.Obj().Name(), sn.Obj().Name())
			}
			return m.eq(rn.Underlying(), sn.Underlying())
		}
		return m.fail("%s vs %s", r, s)
	case sok && !rok:
		// basic type standing for a named basic type of an internal package (Code -> int)
		if sn.Obj().Pkg() != m.std && sn.Obj().Pkg() != nil && strings.HasPrefix(sn.Obj().Pkg().Path(), "internal/") {
			if types.Identical(r, sn.Underlying()) {
				return true
			}
		}
		return m.fail("%s vs %s (underlying %s)", r, s, sn.Underlying())
	case rok && !sok:
		return m.fail("%s vs %s", r, s)
	}
	switch rt := r.(type) {
	case *types.Pointer:
		st, ok := s.(*types.Pointer)
		return ok && m.eq(rt.Elem(), st.Elem()) || m.fail("%s vs %s", r, s)
	case *types.Slice:
		st, ok := s.(*types.Slice)
		return ok && m.eq(rt.Elem(), st.Elem()) || m.fail("%s vs %s", r, s)
	case *types.Struct:
		st, ok := s.(*types.Struct)
		if !ok || rt.NumFields() != st.NumFields() {
			return m.fail("struct with %d fields vs %s", rt.NumFields(), s)
		}
		for i := 0; i < rt.NumFields(); i++ {
			if rt.Field(i).Name() != st.Field(i).Name() {
				return m.fail("field %d is %s, go/types has %s", i, rt.Field(i).Name(), st.Field(i).Name())
			}
			if !m.eq(rt.Field(i).Type(), st.Field(i).Type()) {
				return m.fail("field %s: %s", rt.Field(i).Name(), m.why)
			}
		}
		return true
	case *types.Interface:
		st, ok := s.(*types.Interface)
		if !ok || rt.NumMethods() != st.NumMethods() {
			return m.fail("interface mismatch %s vs %s", r, s)
		}
		for i := 0; i < rt.NumMethods(); i++ {
			if rt.Method(i).Name() != st.Method(i).Name() || !m.eq(rt.Method(i).Type(), st.Method(i).Type()) {
				return m.fail("interface method %s", rt.Method(i).Name())
			}
		}
		return true
	case *types.Signature:
		st, ok := s.(*types.Signature)
		if !ok || rt.Variadic() != st.Variadic() {
			return m.fail("signature mismatch")
		}
		return m.eqTuple(rt.Params(), st.Params(), 0) && m.eqTuple(rt.Results(), st.Results(), 0)
	case *types.Basic:
		return m.fail("%s vs %s", r, s)
	}
	return m.fail("%s vs %s", r, s)
}

func (m *mirrorCmp) eqTuple(r, s *types.Tuple, skipR int) bool {
	if r.Len()-skipR != s.Len() {
		return m.fail("%d parameters/results vs %d", r.Len()-skipR, s.Len())
	}
	for i := 0; i < s.Len(); i++ {
		if !m.eq(r.At(i+skipR).Type(), s.At(i).Type()) {
			return m.fail("position %d (%s): %s", i, s.At(i).Name(), m.why)
		}
	}
	return true
}

func r71(c *fw.Ctx) {
	const rule = "R7.1"
	rp := c.Pkg("")
	tp := c.ByPath["go/types"]
	ep := c.ByPath["internal/types/errors"]
	if tp == nil || tp.Types == nil {
		c.Undecided(rule, "anchor/go-types", token.NoPos, "go/types not loaded")
		return
	}
	n := 0
	newCmp := func() *mirrorCmp {
		var e *types.Package
		if ep != nil {
			e = ep.Types
		}
		return &mirrorCmp{repo: rp.Types, std: tp.Types, errs: e, seen: map[[2]types.Type]bool{}}
	}
	for _, name := range []string{"operand", "operandMode", "builtinId", "errorDesc", "error_", "positioner"} {
		ro, so := rp.Types.Scope().Lookup(name), tp.Types.Scope().Lookup(name)
		if ro == nil {
			c.Undecided(rule, "mirror/"+name, token.NoPos, "mirror declaration %s not found in gogen", name)
			continue
		}
		if so == nil {
			c.Violate(rule, "mirror/"+name, ro.Pos(), "go/types of this GOROOT has no declaration %s: the linkname mirror is stale", name)
			continue
		}
		n++
		m := newCmp()
		ok := m.eq(ro.Type(), so.Type())
		c.Check(ok, rule, "mirror/"+name, ro.Pos(), "mirror of go/types.%s differs from the GOROOT source: %s", name, m.why)
	}
	// operandMode constants
	modes := []string{"invalid", "novalue", "builtin", "typexpr", "constant_", "variable", "mapindex", "value", "nilvalue", "commaok", "commaerr", "cgofunc"}
	for _, name := range modes {
		ro, _ := rp.Types.Scope().Lookup(name).(*types.Const)
		so, _ := tp.Types.Scope().Lookup(name).(*types.Const)
		if ro == nil {
			// only the constants the builder declares are compared
			continue
		}
		n++
		if so == nil {
			c.Violate(rule, "mode/"+name, ro.Pos(), "go/types has no operand mode %s", name)
			continue
		}
		c.Check(constant.Compare(ro.Val(), token.EQL, so.Val()), rule, "mode/"+name, ro.Pos(), "operand mode %s = %s, go/types has %s", name, ro.Val(), so.Val())
	}
	// the mode actually used must be declared
	if _, ok := rp.Types.Scope().Lookup("value").(*types.Const); !ok {
		c.Undecided(rule, "mode/value", token.NoPos, "operand mode `value` not declared")
	}
	// linkname targets and signatures
	links := map[string]string{}
	for _, f := range rp.Syntax {
		for _, cg := range f.Comments {
			for _, cm := range cg.List {
				if strings.HasPrefix(cm.Text, "//go:linkname ") {
					parts := strings.Fields(cm.Text)
					if len(parts) == 3 {
						links[parts[1]] = parts[2]
					}
				}
			}
		}
	}
	checker, _ := tp.Types.Scope().Lookup("Checker").(*types.TypeName)
	for _, local := range sortedKeys(links) {
		target := links[local]
		if !strings.HasPrefix(target, "go/types.(*Checker).") {
			continue
		}
		meth := strings.TrimPrefix(target, "go/types.(*Checker).")
		lo, _ := rp.Types.Scope().Lookup(local).(*types.Func)
		if lo == nil || checker == nil {
			c.Undecided(rule, "linkname/"+local, token.NoPos, "linkname declaration %s not resolved", local)
			continue
		}
		n++
		obj, _, _ := types.LookupFieldOrMethod(types.NewPointer(checker.Type()), true, tp.Types, meth)
		so, _ := obj.(*types.Func)
		if so == nil {
			c.Violate(rule, "linkname/"+local, lo.Pos(), "go/types.(*Checker).%s does not exist in this GOROOT", meth)
			continue
		}
		ls, ss := lo.Type().(*types.Signature), so.Type().(*types.Signature)
		m := newCmp()
		ok := ls.Params().Len() >= 1 && m.eq(ls.Params().At(0).Type(), ss.Recv().Type()) &&
			m.eqTuple(ls.Params(), ss.Params(), 1) && m.eqTuple(ls.Results(), ss.Results(), 0) && ls.Variadic() == ss.Variadic()
		c.Check(ok, rule, "linkname/"+local, lo.Pos(), "signature of %s differs from %s: %s", local, target, m.why)
	}
	c.Check(links["checker_infer"] != "" && links["validType"] != "", rule, "linkname/present", token.NoPos, "both linkname entry points must be declared (found %v)", links)
	// error code literal
	if ep != nil {
		so, _ := ep.Types.Scope().Lookup("CannotInferTypeArgs").(*types.Const)
		var got constant.Value
		var pos token.Pos
		if fd, p := funcDecl(c, "checkerInfer"); fd != nil {
			inspectFunc(fd, func(nd ast.Node) bool {
				if vs, ok := nd.(*ast.ValueSpec); ok {
					for i, nm := range vs.Names {
						if nm.Name == "CannotInferTypeArgs" && i < len(vs.Values) {
							got = constOf(p.TypesInfo, vs.Values[i])
							pos = nm.Pos()
						}
					}
				}
				return true
			})
		}
		if so == nil || got == nil {
			c.Undecided(rule, "code/CannotInferTypeArgs", pos, "error code not found (repo literal: %v, GOROOT constant: %v)", got, so)
		} else {
			n++
			c.Check(constant.Compare(got, token.EQL, so.Val()), rule, "code/CannotInferTypeArgs", pos, "literal %s, internal/types/errors.CannotInferTypeArgs = %s", got, so.Val())
		}
	} else {
		c.Undecided(rule, "anchor/internal-types-errors", token.NoPos, "internal/types/errors not loaded")
	}
	c.Floor(rule, "mirror facts", n, 18)
}

func r72(c *fw.Ctx) {
	const rule = "R7.2"
	n := 0
	for _, p := range c.AnalysedPkgs() {
		info := p.TypesInfo
		for _, fd := range c.Decls() {
			if c.PkgOfDecl(fd) != p {
				continue
			}
			fname := declName(c, fd)
			k := 0
			inspectFunc(fd, func(nd ast.Node) bool {
				call, ok := nd.(*ast.CallExpr)
				if !ok || !isFunc(callee(info, call), "go/types", "Instantiate") || len(call.Args) != 4 {
					return true
				}
				n++
				k++
				v := constOf(info, call.Args[3])
				c.Check(v != nil && v.Kind() == constant.Bool && constant.BoolVal(v), rule, sprintf("%s/Instantiate#%d/validate", fname, k), call.Pos(),
					"types.Instantiate must be asked to validate the type arguments against the constraints (validate=%s)", exprString(call.Args[3]))
				// the error result must be bound to a name (not _) or returned
				okErr := false
				inspectFunc(fd, func(m ast.Node) bool {
					switch s := m.(type) {
					case *ast.AssignStmt:
						for _, r := range s.Rhs {
							if r == call && len(s.Lhs) == 2 {
								if id, ok := s.Lhs[1].(*ast.Ident); ok && id.Name != "_" {
									okErr = true
								}
							}
						}
					case *ast.ReturnStmt:
						for _, r := range s.Results {
							if r == call {
								okErr = true
							}
						}
					}
					return true
				})
				c.Check(okErr, rule, sprintf("%s/Instantiate#%d/error-consumed", fname, k), call.Pos(), "the error of types.Instantiate is discarded")
				return true
			})
		}
	}
	c.Floor(rule, "types.Instantiate calls", n, 5)
}

func r73(c *fw.Ctx) {
	const rule = "R7.3"
	fd, p := needDecl(c, rule, "inferFunc")
	if fd == nil {
		return
	}
	info := p.TypesInfo
	found := 0
	inspectFunc(fd, func(nd ast.Node) bool {
		rs, ok := nd.(*ast.RangeStmt)
		if !ok {
			return true
		}
		kid, _ := rs.Key.(*ast.Ident)
		vid, _ := rs.Value.(*ast.Ident)
		if kid == nil || vid == nil {
			return true
		}
		for _, st := range rs.Body.List {
			as, ok := st.(*ast.AssignStmt)
			if !ok || len(as.Lhs) != 1 || len(as.Rhs) != 1 {
				continue
			}
			lit := asLit(as.Rhs[0])
			if lit == nil || !namedIs(info.TypeOf(lit), fw.Mod, "operand") {
				continue
			}
			found++
			ix, _ := as.Lhs[0].(*ast.IndexExpr)
			sameIdx := ix != nil && exprString(ix.Index) == kid.Name
			f := structFields(info, lit)
			want := map[string]string{"expr": "Val", "typ": "Type", "val": "CVal"}
			okFields := true
			for fld, sel := range want {
				x, ok := isSelector(f[fld], sel)
				if !ok || exprString(x) != vid.Name {
					okFields = false
				}
			}
			modeOK := false
			if mv := constOf(info, f["mode"]); mv != nil {
				if vc, ok := p.Types.Scope().Lookup("value").(*types.Const); ok {
					modeOK = constant.Compare(mv, token.EQL, vc.Val())
				}
			}
			c.Check(sameIdx && okFields, rule, "inferFunc/operand-coherent", lit.Pos(), "operand %s must take expr/typ/val from the same argument %s (Val/Type/CVal) and be stored at the argument's index", exprString(as.Lhs[0]), vid.Name)
			c.Check(modeOK, rule, "inferFunc/operand-mode", lit.Pos(), "operands handed to inference must have mode `value`")
		}
		return true
	})
	if found == 0 {
		c.Undecided(rule, "inferFunc/shape", fd.Pos(), "operand construction loop not found")
	}
	// the inferred list is truncated to the signature's own type parameters before Instantiate,
	// and the error of infer is tested
	errTested := false
	inspectFunc(fd, func(nd ast.Node) bool {
		if as, ok := nd.(*ast.AssignStmt); ok && len(as.Rhs) == 1 {
			if call, ok := as.Rhs[0].(*ast.CallExpr); ok && isFunc(callee(info, call), fw.Mod, "infer") && len(as.Lhs) == 2 {
				if id, ok := as.Lhs[1].(*ast.Ident); ok && id.Name != "_" {
					errTested = true
				}
			}
		}
		return true
	})
	c.Check(errTested, rule, "inferFunc/infer-error-consumed", fd.Pos(), "the error of the inference call must be consumed")
}
