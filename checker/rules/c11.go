package rules

import (
	"go/ast"
	"go/constant"
	"go/token"
	"go/types"
	"strings"

	"golang.org/x/tools/go/packages"

	"gogenvet/fw"
)

func init() {
	register("C11", Prop{
		NeedSSA:     false,
		Run:         runC11,
		Explanation: "R11.1 every row {Name, Fn, Exargs} of the builtin-type method tables is well-typed against the real library: Fn resolves to an object of the loaded standard library (or the universe), its signature has at least 1+len(Exargs) parameters, the table's receiver type is assignable to parameter 0 (len/cap: admissible operand), each extra-argument constant is representable in the corresponding trailing parameter type, names are unique per table; the call rewriting appends the extra arguments after the user's arguments in table order",
		NotDecided:  "the meaning of any lowering (map/any member sugar, optional parameters, enumerators, inline closures, big-number literals); rows whose package is supplied by configuration (PkgPathOsx)",
	})
}

func runC11(c *fw.Ctx) {
	r111(c)
	r112(c)
	r113(c)
}

// importVars maps local variables assigned from pkg.TryImport("path") / pkg.Import("path") to the path.
func importVars(p *packages.Package, fd *ast.FuncDecl) map[types.Object]string {
	info := p.TypesInfo
	r := map[types.Object]string{}
	inspectFunc(fd, func(n ast.Node) bool {
		as, ok := n.(*ast.AssignStmt)
		if !ok || len(as.Lhs) != 1 || len(as.Rhs) != 1 {
			return true
		}
		call, ok := unparen(as.Rhs[0]).(*ast.CallExpr)
		if !ok || len(call.Args) != 1 {
			return true
		}
		fn, ok := callee(info, call).(*types.Func)
		if !ok || (fn.Name() != "TryImport" && fn.Name() != "Import") {
			return true
		}
		id, ok := as.Lhs[0].(*ast.Ident)
		if !ok {
			return true
		}
		obj := info.Defs[id]
		if obj == nil {
			obj = info.Uses[id]
		}
		if s, ok := constString(info, call.Args[0]); ok {
			r[obj] = s
		} else {
			r[obj] = "?" + exprString(call.Args[0])
		}
		return true
	})
	return r
}

// universeVars maps locals assigned from types.Universe.Lookup("x").
func universeVars(p *packages.Package, fd *ast.FuncDecl) map[types.Object]types.Object {
	info := p.TypesInfo
	r := map[types.Object]types.Object{}
	inspectFunc(fd, func(n ast.Node) bool {
		as, ok := n.(*ast.AssignStmt)
		if !ok || len(as.Lhs) != 1 || len(as.Rhs) != 1 {
			return true
		}
		call, ok := unparen(as.Rhs[0]).(*ast.CallExpr)
		if !ok || len(call.Args) != 1 {
			return true
		}
		sel, ok := unparen(call.Fun).(*ast.SelectorExpr)
		if !ok || sel.Sel.Name != "Lookup" || exprString(sel.X) != "types.Universe" {
			return true
		}
		if s, ok := constString(info, call.Args[0]); ok {
			if id, ok := as.Lhs[0].(*ast.Ident); ok {
				r[info.Defs[id]] = types.Universe.Lookup(s)
			}
		}
		return true
	})
	return r
}

// basicTypOf: types.Typ[types.K] -> the basic type.
func basicTypOf(info *types.Info, e ast.Expr) types.Type {
	ix, ok := unparen(e).(*ast.IndexExpr)
	if !ok {
		return nil
	}
	if s, ok := unparen(ix.X).(*ast.SelectorExpr); !ok || s.Sel.Name != "Typ" {
		return nil
	}
	k, ok := constInt(info, ix.Index)
	if !ok || k <= 0 || int(k) >= len(types.Typ) {
		return nil
	}
	return types.Typ[k]
}

func r111(c *fw.Ctx) {
	const rule = "R11.1"
	fd, p := needDecl(c, rule, "initBuiltinTIs")
	if fd == nil {
		return
	}
	info := p.TypesInfo
	imps := importVars(p, fd)
	univ := universeVars(p, fd)
	tySlice := p.Types.Scope().Lookup("tySlice")
	tyChan := p.Types.Scope().Lookup("tyChan")

	// resolve the receiver type expression of a table
	recvOf := func(e ast.Expr) (types.Type, string, bool) {
		if t := basicTypOf(info, e); t != nil {
			return t, t.String(), true
		}
		e = unparen(e)
		if id, ok := e.(*ast.Ident); ok {
			switch info.Uses[id] {
			case tySlice:
				return types.NewSlice(types.Typ[types.Int]), "any-slice", true // representative; only len/cap rows are allowed to rely on it
			case tyChan:
				return types.NewChan(types.SendRecv, types.Typ[types.Int]), "any-chan", true
			}
		}
		if call, ok := e.(*ast.CallExpr); ok {
			if isFunc(callee(info, call), "go/types", "NewSlice") && len(call.Args) == 1 {
				if t := basicTypOf(info, call.Args[0]); t != nil {
					return types.NewSlice(t), "[]" + t.String(), true
				}
			}
			// X.Ref("Name").Type()
			if sel, ok := unparen(call.Fun).(*ast.SelectorExpr); ok && sel.Sel.Name == "Type" {
				if inner, ok := unparen(sel.X).(*ast.CallExpr); ok && len(inner.Args) == 1 {
					if isel, ok := unparen(inner.Fun).(*ast.SelectorExpr); ok && isel.Sel.Name == "Ref" {
						if id, ok := unparen(isel.X).(*ast.Ident); ok {
							path := imps[info.Uses[id]]
							name, _ := constString(info, inner.Args[0])
							if sp := c.ByPath[path]; sp != nil && name != "" {
								if o := sp.Types.Scope().Lookup(name); o != nil {
									return o.Type(), path + "." + name, true
								}
							}
						}
					}
				}
			}
		}
		return nil, "", false
	}
	// resolve Fn
	fnOf := func(e ast.Expr) (types.Object, string, string) {
		e = unparen(e)
		if id, ok := e.(*ast.Ident); ok {
			if o, ok := univ[info.Uses[id]]; ok && o != nil {
				return o, "universe." + o.Name(), ""
			}
		}
		if call, ok := e.(*ast.CallExpr); ok && len(call.Args) == 1 {
			if sel, ok := unparen(call.Fun).(*ast.SelectorExpr); ok && sel.Sel.Name == "Ref" {
				if id, ok := unparen(sel.X).(*ast.Ident); ok {
					path, known := imps[info.Uses[id]]
					name, _ := constString(info, call.Args[0])
					if known && len(path) > 0 && path[0] == '?' {
						return nil, "", "config"
					}
					if sp := c.ByPath[path]; sp != nil && name != "" {
						if o := sp.Types.Scope().Lookup(name); o != nil {
							return o, path + "." + name, ""
						}
						return nil, path + "." + name, "missing"
					}
					if known {
						return nil, path + "." + name, "notloaded"
					}
				}
			}
		}
		return nil, "", "unresolved"
	}

	rows, tables := 0, 0
	inspectFunc(fd, func(n ast.Node) bool {
		lit, ok := n.(*ast.CompositeLit)
		if !ok || !namedIs(info.TypeOf(lit), fw.Mod, "BuiltinTI") {
			return true
		}
		f := structFields(info, lit)
		mlit := asLit(f["methods"])
		if mlit == nil || f["typ"] == nil {
			c.Undecided(rule, "table/shape", lit.Pos(), "BuiltinTI literal without typ/methods")
			return true
		}
		recv, rname, ok := recvOf(f["typ"])
		if !ok {
			c.Undecided(rule, "table/"+exprString(f["typ"])+"/receiver", f["typ"].Pos(), "receiver type expression %s not understood", exprString(f["typ"]))
			return true
		}
		tables++
		seen := map[string]bool{}
		for _, el := range mlit.Elts {
			row := asLit(el)
			if row == nil {
				c.Undecided(rule, "table/"+rname+"/row-shape", el.Pos(), "method row is not a composite literal")
				continue
			}
			rf := structFields(info, row)
			name, ok := constString(info, rf["Name"])
			if !ok {
				c.Undecided(rule, "table/"+rname+"/row-name", row.Pos(), "method name is not a constant")
				continue
			}
			key := "table/" + rname + "/" + name
			rows++
			c.Check(!seen[name], rule, key+"/unique", row.Pos(), "method name %s appears twice in the table of %s: the second row is unreachable", name, rname)
			seen[name] = true
			// extra args
			var exargs []ast.Expr
			if ea := rf["Exargs"]; ea != nil && exprString(ea) != "nil" {
				el := asLit(ea)
				if el == nil {
					c.Undecided(rule, key+"/exargs", ea.Pos(), "extra arguments not a literal list")
					continue
				}
				exargs = el.Elts
			}
			obj, oname, problem := fnOf(rf["Fn"])
			switch problem {
			case "config":
				c.OK(rule, key+"/resolves", row.Pos(), "package supplied by configuration: not decided statically")
				c.Assume("rows of the builtin-type table whose package comes from Config.PkgPathOsx are not checked")
				continue
			case "missing":
				c.Violate(rule, key+"/resolves", row.Pos(), "%s does not exist in the loaded standard library: Ref panics on first use", oname)
				continue
			case "notloaded", "unresolved":
				c.Undecided(rule, key+"/resolves", row.Pos(), "function %s (%s) could not be resolved in the loaded program", exprString(rf["Fn"]), oname)
				continue
			}
			if b, isB := obj.(*types.Builtin); isB {
				// len/cap: admissible operand
				okOp := false
				u := recv.Underlying()
				switch b.Name() {
				case "len":
					switch t := u.(type) {
					case *types.Basic:
						okOp = t.Info()&types.IsString != 0
					case *types.Slice, *types.Map, *types.Chan, *types.Array:
						okOp = true
					}
				case "cap":
					switch u.(type) {
					case *types.Slice, *types.Chan, *types.Array:
						okOp = true
					}
				}
				c.Check(okOp && len(exargs) == 0, rule, key+"/receiver", row.Pos(), "builtin %s is not applicable to a receiver of type %s", b.Name(), rname)
				continue
			}
			fn, isFn := obj.(*types.Func)
			if !isFn {
				c.Violate(rule, key+"/resolves", row.Pos(), "%s is not a function", oname)
				continue
			}
			sig := fn.Type().(*types.Signature)
			np := sig.Params().Len()
			if !c.Check(np >= 1+len(exargs), rule, key+"/arity", row.Pos(), "%s has %d parameters; the row needs the receiver plus %d extra arguments", oname, np, len(exargs)) {
				continue
			}
			p0 := sig.Params().At(0).Type()
			if sig.Variadic() && np == 1 {
				p0 = p0.(*types.Slice).Elem()
			}
			generic := rname == "any-slice" || rname == "any-chan"
			c.Check(!generic && types.AssignableTo(recv, p0), rule, key+"/receiver", row.Pos(), "receiver type %s is not assignable to the first parameter of %s (%s)", rname, oname, p0)
			for i, ea := range exargs {
				pt := sig.Params().At(np - len(exargs) + i).Type()
				v := constOf(info, ea)
				if v == nil {
					c.Undecided(rule, sprintf("%s/exarg%d", key, i), ea.Pos(), "extra argument %s is not a constant", exprString(ea))
					continue
				}
				c.Check(representable(v, pt), rule, sprintf("%s/exarg%d", key, i), ea.Pos(), "extra argument %s is not representable in parameter %s of %s (type %s)", v, sig.Params().At(np-len(exargs)+i).Name(), oname, pt)
			}
		}
		return true
	})
	c.Floor(rule, "method rows", rows, 40)
	c.Floor(rule, "tables", tables, 7)

	// call rewriting: extra arguments are pushed after the user's arguments, in table order
	if cfd, cp := needDecl(c, rule, "(*CodeBuilder).CallWithEx"); cfd != nil {
		ok := false
		inspectFunc(cfd, func(n ast.Node) bool {
			rs, isR := n.(*ast.RangeStmt)
			if !isR {
				return true
			}
			if sel, isSel := unparen(rs.X).(*ast.SelectorExpr); isSel && sel.Sel.Name == "eargs" {
				// body: p.Val(arg) with arg the range value, ascending order (plain range)
				if v, isId := rs.Value.(*ast.Ident); isId && len(rs.Body.List) == 1 {
					if es, isES := rs.Body.List[0].(*ast.ExprStmt); isES {
						if call, isC := es.X.(*ast.CallExpr); isC && isFunc(callee(cp.TypesInfo, call), fw.Mod, "CodeBuilder.Val") && len(call.Args) >= 1 && exprString(call.Args[0]) == v.Name {
							ok = true
						}
					}
				}
			}
			return true
		})
		c.Check(ok, rule, "CallWithEx/extra-args-appended-in-order", cfd.Pos(), "extra arguments of a builtin-type method must be pushed after the user's arguments in table order")
	}
	// Params() arithmetic: Len - len(Exargs) - 1, non-positive guarded
	if pfd, _ := needDecl(c, rule, "(*BuiltinMethod).Params"); pfd != nil {
		guard := false
		inspectFunc(pfd, func(n ast.Node) bool {
			if is, ok := n.(*ast.IfStmt); ok {
				if be, ok := unparen(is.Cond).(*ast.BinaryExpr); ok && (be.Op == token.LEQ || be.Op == token.LSS) {
					guard = true
				}
			}
			return true
		})
		c.Check(guard, rule, "BuiltinMethod.Params/non-negative", pfd.Pos(), "the visible parameter count must be guarded against going negative")
	}
}

// representable reports whether constant v can be passed as an argument of type t.
func representable(v constant.Value, t types.Type) bool {
	b, ok := t.Underlying().(*types.Basic)
	if !ok {
		// interface{} accepts anything
		if it, ok := t.Underlying().(*types.Interface); ok {
			return it.Empty()
		}
		return false
	}
	switch {
	case b.Info()&types.IsInteger != 0:
		iv := constant.ToInt(v)
		if iv.Kind() != constant.Int {
			return false
		}
		lo, hi, ok := specIntRange(b.Kind(), types.SizesFor("gc", "amd64"))
		if !ok {
			return false
		}
		return !constant.Compare(iv, token.LSS, lo) && !constant.Compare(iv, token.GTR, hi)
	case b.Info()&types.IsFloat != 0:
		return v.Kind() == constant.Int || v.Kind() == constant.Float
	case b.Info()&types.IsString != 0:
		return v.Kind() == constant.String
	case b.Info()&types.IsBoolean != 0:
		return v.Kind() == constant.Bool
	}
	return false
}

// R11.2: omitted optional arguments become zero values of the parameter types - and only optional
// parameters may be omitted. Where matchFuncCall fills the missing tail of the argument list with zero
// values (a loop over the missing indices assigning pkg.Zero(param type)), every index of that same range
// must have been tested with isParamOptional: in the fill loop itself or in a loop with the same header.
// Testing only the first missing parameter lowers `Send("bob")` for func Send(to string, retries? int,
// body string) to Send("bob", 0, ""), giving a required parameter a value the caller never wrote.
func r112(c *fw.Ctx) {
	const rule = "R11.2"
	fd, p := needDecl(c, rule, "matchFuncCall")
	if fd == nil {
		return
	}
	info := p.TypesInfo
	stmtText := func(st ast.Stmt) string {
		switch x := st.(type) {
		case nil:
			return ""
		case *ast.AssignStmt:
			var l, r []string
			for _, e := range x.Lhs {
				l = append(l, exprString(e))
			}
			for _, e := range x.Rhs {
				r = append(r, exprString(e))
			}
			return strings.Join(l, ",") + x.Tok.String() + strings.Join(r, ",")
		case *ast.IncDecStmt:
			return exprString(x.X) + x.Tok.String()
		case *ast.ExprStmt:
			return exprString(x.X)
		}
		return "?"
	}
	header := func(fs *ast.ForStmt) string {
		return stmtText(fs.Init) + "; " + exprString(fs.Cond) + "; " + stmtText(fs.Post)
	}
	var fills, tests []*ast.ForStmt
	ast.Inspect(fd.Body, func(m ast.Node) bool {
		fs, ok := m.(*ast.ForStmt)
		if !ok || fs.Cond == nil {
			return true
		}
		isFill, isTest := false, false
		ast.Inspect(fs.Body, func(k ast.Node) bool {
			if call, ok := k.(*ast.CallExpr); ok {
				if isFunc(callee(info, call), fw.Mod, "Package.Zero") {
					isFill = true
				}
				if fn, _ := callee(info, call).(*types.Func); fn != nil && fn.Pkg() == p.Types && fn.Name() == "isParamOptional" {
					isTest = true
				}
			}
			return true
		})
		if isFill {
			fills = append(fills, fs)
		}
		if isTest {
			tests = append(tests, fs)
		}
		return true
	})
	if len(fills) == 0 {
		c.Undecided(rule, "matchFuncCall/zero-fill", fd.Pos(), "no loop that fills omitted arguments with zero values found")
		return
	}
	for i, f := range fills {
		covered := false
		for _, t := range tests {
			if header(t) == header(f) {
				covered = true
			}
		}
		c.Check(covered, rule, sprintf("matchFuncCall/zero-fill#%d/every-omitted-parameter-tested-optional", i+1), f.Pos(),
			"the omitted arguments %s are filled with zero values, but no loop over the same indices tests isParamOptional for each of them: a required parameter that follows an optional one receives a zero value", header(f))
	}
}

// R11.3: member access on `any` / string-keyed maps in a range header is lowered through a hoisted
// assertion statement (`_autoGo_1, _ := x.(map[string]any)`) that must be emitted before the for statement.
// The statements produced while the header was built are collected by RangeAssignThen (clearBlockStmt)
// and re-emitted in front of the loop by End. They must be collected for every form of the range header
// (`k, v := range`, `k, v = range`, `range`): on every normal path of RangeAssignThen the pending
// statements of the block are taken over into the loop object.
func r113(c *fw.Ctx) {
	const rule = "R11.3"
	fd, p := needDecl(c, rule, "(*forRangeStmt).RangeAssignThen")
	if fd == nil {
		return
	}
	info := p.TypesInfo
	paths, trunc := enumPaths(info, fd.Body)
	if trunc {
		c.Undecided(rule, "RangeAssignThen/paths", fd.Pos(), "too many paths")
		return
	}
	nNormal, nTaken := 0, 0
	for _, pa := range paths {
		if pa.Abnormal {
			continue
		}
		nNormal++
		taken := false
		for _, nd := range pa.Nodes {
			as, ok := nd.(*ast.AssignStmt)
			if !ok || len(as.Lhs) != len(as.Rhs) {
				continue
			}
			for i, l := range as.Lhs {
				se, ok := unparen(l).(*ast.SelectorExpr)
				if !ok {
					continue
				}
				if fv, ok := info.Uses[se.Sel].(*types.Var); !ok || !fv.IsField() {
					continue
				}
				if call, ok := unparen(as.Rhs[i]).(*ast.CallExpr); ok && isFunc(callee(info, call), fw.Mod, "CodeBuilder.clearBlockStmt") {
					taken = true
				}
			}
		}
		if taken {
			nTaken++
		}
	}
	c.Check(nNormal > 0 && nTaken == nNormal, rule, "RangeAssignThen/collects-hoisted-statements-on-every-path", fd.Pos(),
		"%d of %d normal paths take over the statements emitted while the range header was built: on the others a hoisted `_autoGo_N, _ := x.(map[string]any)` stays inside the loop body while the header refers to _autoGo_N (undefined in the emitted code)", nTaken, nNormal)
}
