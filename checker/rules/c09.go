package rules

import (
	"go/ast"
	"go/token"
	"go/types"
	"strings"

	"golang.org/x/tools/go/packages"

	"gogenvet/fw"
)

func init() {
	register("C09", Prop{
		NeedSSA: false,
		Run:     runC09,
		Explanation: "R9.1 registration completeness: every types.Scope.Insert of an object that belongs to the generated package (package-level and local variables, constants, types, functions, parameters, results, receivers, range and type-switch variables) is accompanied in the same function, in the same loop, by a useName call with that object's name — otherwise an import whose name equals the declared name is not renamed and the declaration captures package-qualified references; " +
			"R9.2 every producer of an identifier not supplied by the caller (the auto-name generator, fixed helper names) consults the declared-name set before the name is used; " +
			"R9.3 the import rename loop tests both name sets (declared names, the file's import names) with consistent keys and registers its result; a renamed import patches both the reference and the name printed in the import spec",
		NotDecided: "per-file usage marking of references that are built and later discarded; names declared after a reference was built (history-dependent part)",
	})
}

func runC09(c *fw.Ctx) {
	r91(c)
	r92(c)
	r93(c)
	r94(c)
	r95(c)
	r96(c)
	r97(c)
}

// genPkgExpr: expression denotes the generated package's *types.Package (X.Types with X a *Package, or a local alias of it).
func isGenPkgExpr(info *types.Info, fd *ast.FuncDecl, e ast.Expr) bool {
	e = unparen(e)
	if sel, ok := e.(*ast.SelectorExpr); ok && sel.Sel.Name == "Types" {
		return namedIs(info.TypeOf(sel.X), fw.Mod, "Package")
	}
	if id, ok := e.(*ast.Ident); ok {
		obj := info.Uses[id]
		found := false
		inspectFunc(fd, func(n ast.Node) bool {
			if as, ok := n.(*ast.AssignStmt); ok {
				for i, l := range as.Lhs {
					if lid, ok := l.(*ast.Ident); ok && (info.Defs[lid] == obj || info.Uses[lid] == obj) && i < len(as.Rhs) && len(as.Lhs) == len(as.Rhs) {
						if isGenPkgExprNoAlias(info, as.Rhs[i]) {
							found = true
						}
					}
				}
			}
			return true
		})
		return found
	}
	return false
}

func isGenPkgExprNoAlias(info *types.Info, e ast.Expr) bool {
	if sel, ok := unparen(e).(*ast.SelectorExpr); ok && sel.Sel.Name == "Types" {
		return namedIs(info.TypeOf(sel.X), fw.Mod, "Package")
	}
	return false
}

// insertedObject analyses the argument of a Scope.Insert call: returns the expression giving the
// object's name ("" when the name comes from the object itself, e.g. a parameter), whether it belongs
// to the generated package, and a description.
func insertedObject(info *types.Info, fd *ast.FuncDecl, arg ast.Expr) (nameExpr string, generated bool, what string) {
	arg = unparen(arg)
	ctor := func(call *ast.CallExpr) (string, bool, string, bool) {
		fn, ok := callee(info, call).(*types.Func)
		if !ok || fn == nil || fn.Pkg() == nil || fn.Pkg().Path() != "go/types" {
			return "", false, "", false
		}
		switch fn.Name() {
		case "NewVar", "NewParam", "NewConst", "NewTypeName", "NewFunc", "NewField", "NewLabel":
			if len(call.Args) >= 3 {
				return exprString(call.Args[2]), isGenPkgExpr(info, fd, call.Args[1]), fn.Name(), true
			}
		}
		return "", false, "", false
	}
	if call, ok := arg.(*ast.CallExpr); ok {
		if n, g, w, ok := ctor(call); ok {
			return n, g, w
		}
		// fn.Obj() of a *Func built from types.NewFunc(pos, p.Types, name, sig)
		if sel, ok := unparen(call.Fun).(*ast.SelectorExpr); ok && sel.Sel.Name == "Obj" {
			if id, ok := unparen(sel.X).(*ast.Ident); ok {
				n, g, w := localCtor(info, fd, info.Uses[id], ctor)
				if w != "" {
					return n, g, w
				}
			}
		}
	}
	if id, ok := arg.(*ast.Ident); ok {
		obj := info.Uses[id]
		if n, g, w := localCtor(info, fd, obj, ctor); w != "" {
			return n, g, w
		}
		// a *types.Var taken from a signature (parameter/result/receiver of a user function)
		if t := info.TypeOf(id); t != nil && t.String() == "*go/types.Var" {
			return "", true, "signature variable " + id.Name
		}
	}
	return "", false, ""
}

func localCtor(info *types.Info, fd *ast.FuncDecl, obj types.Object, ctor func(*ast.CallExpr) (string, bool, string, bool)) (string, bool, string) {
	var rn string
	var rg bool
	var rw string
	inspectFunc(fd, func(n ast.Node) bool {
		as, ok := n.(*ast.AssignStmt)
		if !ok {
			return true
		}
		for i, l := range as.Lhs {
			lid, ok := l.(*ast.Ident)
			if !ok || !(info.Defs[lid] == obj || info.Uses[lid] == obj) || i >= len(as.Rhs) || len(as.Lhs) != len(as.Rhs) {
				continue
			}
			var call *ast.CallExpr
			ast.Inspect(as.Rhs[i], func(m ast.Node) bool {
				if cl, ok := m.(*ast.CallExpr); ok && call == nil {
					if _, _, _, ok := ctor(cl); ok {
						call = cl
					}
				}
				return true
			})
			if call != nil {
				rn, rg, rw, _ = ctor(call)
			}
		}
		return true
	})
	return rn, rg, rw
}

func innermostLoop(fd *ast.FuncDecl, pos token.Pos) ast.Node {
	var loop ast.Node
	inspectFunc(fd, func(n ast.Node) bool {
		switch n.(type) {
		case *ast.ForStmt, *ast.RangeStmt:
			if n.Pos() <= pos && pos < n.End() {
				loop = n
			}
		}
		return true
	})
	return loop
}

func r91(c *fw.Ctx) {
	const rule = "R9.1"
	p := c.Pkg("")
	info := p.TypesInfo
	sites, gen := 0, 0
	for _, fd := range c.Decls() {
		if c.PkgOfDecl(fd) != p {
			continue
		}
		fname := declName(c, fd)
		// useName calls of this function: argument text and loop
		type use struct {
			arg  string
			loop ast.Node
		}
		var uses []use
		inspectFunc(fd, func(n ast.Node) bool {
			if call, ok := n.(*ast.CallExpr); ok && isFunc(callee(info, call), fw.Mod, "autoNames.useName") && len(call.Args) == 1 {
				uses = append(uses, use{exprString(call.Args[0]), innermostLoop(fd, call.Pos())})
			}
			return true
		})
		k := 0
		inspectFunc(fd, func(n ast.Node) bool {
			call, ok := n.(*ast.CallExpr)
			if !ok || !isFunc(callee(info, call), "go/types", "Scope.Insert") || len(call.Args) != 1 {
				return true
			}
			sites++
			nameExpr, generated, what := insertedObject(info, fd, call.Args[0])
			if what == "" {
				// object of unknown origin: decide by the scope receiver — inserts into the builtin/unsafe/imported scopes are not declarations of the generated package
				recv := ""
				if sel, ok := unparen(call.Fun).(*ast.SelectorExpr); ok {
					recv = exprString(sel.X)
				}
				c.OK(rule, sprintf("%s/insert(%s)/foreign", fname, exprString(call.Args[0])), call.Pos(), "object of an imported/builtin package inserted into %s: not a declaration of the generated package", recv)
				return true
			}
			if !generated {
				c.OK(rule, sprintf("%s/insert(%s)/foreign", fname, what), call.Pos(), "object belongs to an imported/builtin package")
				return true
			}
			gen++
			k++
			loop := innermostLoop(fd, call.Pos())
			registered := false
			for _, u := range uses {
				if u.loop != loop {
					continue
				}
				if nameExpr == "" || u.arg == nameExpr || u.arg == strings.TrimSuffix(nameExpr, "()")+"()" {
					registered = true
				}
				// v.Name() of the inserted variable
				if nameExpr == "" && strings.HasSuffix(u.arg, ".Name()") {
					registered = true
				}
			}
			key := sprintf("%s/insert(%s)#%d", fname, what, k)
			c.Check(registered, rule, key, call.Pos(),
				"%s declares a name of the generated package (%s %s) without registering it with useName: an import with the same name is not renamed, so the declaration captures package-qualified references in its scope", fname, what, nameExpr)
			return true
		})
	}
	c.Floor(rule, "Scope.Insert sites", sites, 30)
	c.Floor(rule, "inserts of generated-package objects", gen, 8)
}

func r92(c *fw.Ctx) {
	const rule = "R9.2"
	p := c.Pkg("")
	info := p.TypesInfo
	n := 0
	// (a) name generators: methods of autoNames that return a string built from a counter/prefix
	for _, fd := range c.Decls() {
		if c.PkgOfDecl(fd) != p || fd.Recv == nil || !namedIs(info.TypeOf(fd.Recv.List[0].Type), fw.Mod, "autoNames") {
			continue
		}
		if fd.Type.Results == nil || len(fd.Type.Results.List) == 0 {
			continue
		}
		if t := info.TypeOf(fd.Type.Results.List[0].Type); t == nil || t.String() != "string" {
			continue
		}
		if fd.Type.Params != nil && len(fd.Type.Params.List) > 0 && fd.Name.Name != "autoName" {
			continue // importName(file, name): R9.3
		}
		n++
		consults := false
		inspectFunc(fd, func(m ast.Node) bool {
			if call, ok := m.(*ast.CallExpr); ok && isFunc(callee(info, call), fw.Mod, "autoNames.hasName") {
				consults = true
			}
			if ix, ok := m.(*ast.IndexExpr); ok && strings.HasSuffix(exprString(ix.X), ".names") {
				consults = true
			}
			return true
		})
		c.Check(consults, rule, declName(c, fd)+"/consults-declared-names", fd.Pos(),
			"%s synthesises an identifier without consulting the declared-name set: a user identifier with the same spelling is captured", declName(c, fd))
	}
	// (b) fixed helper identifiers: package-level `ident("_x")` singletons
	for _, f := range p.Syntax {
		for _, d := range f.Decls {
			gd, ok := d.(*ast.GenDecl)
			if !ok || gd.Tok != token.VAR {
				continue
			}
			for _, s := range gd.Specs {
				vs := s.(*ast.ValueSpec)
				for i, nm := range vs.Names {
					if i >= len(vs.Values) {
						continue
					}
					call, ok := unparen(vs.Values[i]).(*ast.CallExpr)
					if !ok || !isFunc(callee(info, call), fw.Mod, "ident") || len(call.Args) != 1 {
						continue
					}
					name, ok := constString(info, call.Args[0])
					if !ok || !strings.HasPrefix(name, "_") || name == "_" {
						continue
					}
					n++
					// is the name checked against declared names anywhere?
					obj := info.Defs[nm]
					checked := false
					for _, fd := range c.Decls() {
						if c.PkgOfDecl(fd) != p {
							continue
						}
						usesIt, consults := false, false
						inspectFunc(fd, func(m ast.Node) bool {
							if id, ok := m.(*ast.Ident); ok && info.Uses[id] == obj {
								usesIt = true
							}
							if cl, ok := m.(*ast.CallExpr); ok && isFunc(callee(info, cl), fw.Mod, "autoNames.hasName") {
								consults = true
							}
							return true
						})
						if usesIt && consults {
							checked = true
						}
					}
					c.Check(checked, rule, "fixed-name/"+name+"/consults-declared-names", nm.Pos(),
						"the helper identifier %q is emitted into user scopes without consulting the declared-name set: a user variable %s in a range-over-enumerator body collides with it", name, name)
				}
			}
		}
	}
	c.Floor(rule, "identifier producers", n, 3)
}

func r93(c *fw.Ctx) {
	const rule = "R9.3"
	fd, p := needDecl(c, rule, "(*autoNames).importName")
	if fd == nil {
		return
	}
	info := p.TypesInfo
	// Path form (no particular loop shape is assumed): on every normal path, after the last assignment of the
	// returned candidate, both membership tests were made about that candidate (and the import test about the
	// same file) with a false outcome, and the candidate is registered for the file afterwards.
	var cand, fileParam types.Object
	if fd.Type.Results != nil && len(fd.Type.Results.List) > 0 && len(fd.Type.Results.List[0].Names) > 0 {
		cand = info.Defs[fd.Type.Results.List[0].Names[0]]
	}
	if len(fd.Type.Params.List) > 0 && len(fd.Type.Params.List[0].Names) > 0 {
		fileParam = info.Defs[fd.Type.Params.List[0].Names[0]]
	}
	if cand == nil || fileParam == nil {
		c.Undecided(rule, "importName/shape", fd.Pos(), "the function no longer has a named candidate result and a file parameter")
		return
	}
	paths, trunc := enumPathsN(info, fd.Body, 2)
	if trunc {
		c.Undecided(rule, "importName/paths", fd.Pos(), "too many paths")
		return
	}
	isIdentOf := func(e ast.Expr, o types.Object) bool {
		id, ok := unparen(e).(*ast.Ident)
		return ok && info.Uses[id] == o
	}
	var alias types.Object // a variable the candidate was last copied from (ret = name)
	isTest := func(e ast.Expr, method string, nargs int) bool {
		call, ok := unparen(e).(*ast.CallExpr)
		if !ok || len(call.Args) != nargs || !isFunc(callee(info, call), fw.Mod, "autoNames."+method) {
			return false
		}
		if nargs == 2 && !isIdentOf(call.Args[0], fileParam) {
			return false
		}
		return isIdentOf(call.Args[nargs-1], cand) || (alias != nil && isIdentOf(call.Args[nargs-1], alias))
	}
	nPaths, nBoth, nReg, nRenamedPaths := 0, 0, 0, 0
	badBoth, badReg := "", ""
	for _, pa := range paths {
		if pa.Abnormal {
			continue
		}
		nPaths++
		// index of the last node that assigns the candidate (assignments inside an if-init are cfg nodes too)
		last := 0
		alias = nil
		for i, n := range pa.Nodes {
			ast.Inspect(n, func(m ast.Node) bool {
				if as, ok := m.(*ast.AssignStmt); ok {
					for k, l := range as.Lhs {
						if id, ok := unparen(l).(*ast.Ident); ok && (info.Uses[id] == cand || info.Defs[id] == cand) {
							last = i + 1
							alias = nil
							if len(as.Lhs) == len(as.Rhs) {
								if rid, ok := unparen(as.Rhs[k]).(*ast.Ident); ok {
									if v, ok := info.Uses[rid].(*types.Var); ok && v != cand {
										alias = v
									}
								}
							}
						}
					}
				}
				return true
			})
		}
		hasN, hasI := false, false
		var trail []string
		for _, f := range expandFacts(pa.Facts) {
			if f.At <= last {
				continue
			}
			trail = append(trail, sprintf("%s=%v", exprString(f.Cond), f.Val))
			if !f.Val && isTest(f.Cond, "hasName", 1) {
				hasN = true
			}
			if !f.Val && isTest(f.Cond, "hasImportName", 2) {
				hasI = true
			}
		}
		if hasN && hasI {
			nBoth++
		} else if badBoth == "" {
			badBoth = sprintf("after the last assignment of the candidate only {%s} is established", strings.Join(trail, "; "))
		}
		reg := false
		for i, n := range pa.Nodes {
			if i < last {
				continue
			}
			ast.Inspect(n, func(m ast.Node) bool {
				if call, ok := m.(*ast.CallExpr); ok && isFunc(callee(info, call), fw.Mod, "autoNames.useImportName") && len(call.Args) == 2 &&
					isIdentOf(call.Args[0], fileParam) && isIdentOf(call.Args[1], cand) {
					reg = true
				}
				return true
			})
		}
		if reg {
			nReg++
		} else if badReg == "" {
			badReg = "a path returns a candidate that was not registered for the file after it was chosen"
		}
		if last > 1 {
			nRenamedPaths++
		}
	}
	c.Check(nPaths > 0 && nBoth == nPaths, rule, "importName/loop-tests-both-sets", fd.Pos(),
		"%d of %d normal paths establish that the returned name is neither a declared name nor an import name of the same file: %s", nBoth, nPaths, badBoth)
	c.Check(nPaths > 0 && nReg == nPaths, rule, "importName/registers-result", fd.Pos(),
		"%d of %d normal paths register the returned name for the file: %s — two imports of one file could receive the same name", nReg, nPaths, badReg)
	c.Check(nRenamedPaths > 0, rule, "importName/candidate-advances", fd.Pos(), "some path must choose a new candidate when the first one is taken")
	// key consistency of the four set primitives
	keyOf := func(name string) (string, string) {
		f, pp := funcDecl(c, "(*autoNames)."+name)
		if f == nil {
			return "", ""
		}
		var idx, mp string
		inspectFunc(f, func(n ast.Node) bool {
			if ix, ok := n.(*ast.IndexExpr); ok {
				if s, ok := unparen(ix.X).(*ast.SelectorExpr); ok {
					mp = s.Sel.Name
					idx = exprString(ix.Index)
					if lit := asLit(ix.Index); lit != nil {
						fl := structFields(pp.TypesInfo, lit)
						idx = "name=" + exprString(fl["name"]) + ",file=" + exprString(fl["file"])
					}
				}
			}
			return true
		})
		return mp, idx
	}
	m1, k1 := keyOf("useName")
	m2, k2 := keyOf("hasName")
	m3, k3 := keyOf("useImportName")
	m4, k4 := keyOf("hasImportName")
	c.Check(m1 != "" && m1 == m2 && k1 == k2, rule, "names/use-has-agree", fd.Pos(), "useName writes %s[%s], hasName reads %s[%s]", m1, k1, m2, k2)
	c.Check(m3 != "" && m3 == m4 && k3 == k4 && strings.Contains(k3, "name=name") && strings.Contains(k3, "file=file"), rule, "importNames/use-has-agree", fd.Pos(),
		"useImportName writes %s[%s], hasImportName reads %s[%s]", m3, k3, m4, k4)
	// the visitor patches both the reference and the spec name, and marks the import used
	if vfd, vp := needDecl(c, rule, "(*astVisitor).Visit"); vfd != nil {
		r93visitor(c, vp, vfd)
	}
	// getDecls prints the patched name
	if gfd, _ := needDecl(c, rule, "(*File).getDecls"); gfd != nil {
		usesObjName := false
		inspectFunc(gfd, func(n ast.Node) bool {
			if lit, ok := n.(*ast.CompositeLit); ok {
				f := structFields(p.TypesInfo, lit)
				if e := f["Name"]; e != nil && strings.HasSuffix(exprString(e), ".Obj.Name") {
					usesObjName = true
				}
			}
			return true
		})
		c.Check(usesObjName, rule, "getDecls/spec-name-from-shared-ident", gfd.Pos(), "the import spec must be named after the shared identifier's (possibly renamed) name")
	}
}

func r93visitor(c *fw.Ctx, p *packages.Package, fd *ast.FuncDecl) {
	const rule = "R9.3"
	info := p.TypesInfo
	var call *ast.CallExpr
	var ifRenamed *ast.IfStmt
	inspectFunc(fd, func(n ast.Node) bool {
		if is, ok := n.(*ast.IfStmt); ok && is.Init != nil {
			if as, ok := is.Init.(*ast.AssignStmt); ok && len(as.Rhs) == 1 {
				if cl, ok := as.Rhs[0].(*ast.CallExpr); ok && isFunc(callee(info, cl), fw.Mod, "autoNames.importName") {
					call, ifRenamed = cl, is
				}
			}
		}
		return true
	})
	if call == nil {
		c.Undecided(rule, "Visit/shape", fd.Pos(), "import rename site not found")
		return
	}
	// arguments: this file's name and the identifier's current name
	c.Check(len(call.Args) == 2 && strings.HasSuffix(exprString(call.Args[0]), ".file.Name()") && strings.HasSuffix(exprString(call.Args[1]), ".Name"),
		rule, "Visit/rename-per-file", call.Pos(), "the rename must be asked for the file being written and the identifier's own name")
	setName, setObjName := false, false
	ast.Inspect(ifRenamed.Body, func(n ast.Node) bool {
		if as, ok := n.(*ast.AssignStmt); ok && len(as.Lhs) == 1 {
			l := exprString(as.Lhs[0])
			if strings.HasSuffix(l, ".Obj.Name") {
				setObjName = true
			} else if strings.HasSuffix(l, ".Name") {
				setName = true
			}
		}
		return true
	})
	c.Check(setName && setObjName, rule, "Visit/patches-reference-and-spec", ifRenamed.Pos(), "a renamed import must patch both the shared reference identifier and the name the import spec is printed with")
	// guard: only once per identifier (used flag false -> set true before renaming)
	marks := false
	inspectFunc(fd, func(n ast.Node) bool {
		if as, ok := n.(*ast.AssignStmt); ok && len(as.Lhs) == 1 && strings.HasSuffix(exprString(as.Lhs[0]), ".Obj.Data") {
			if cl, ok := as.Rhs[0].(*ast.CallExpr); ok && exprString(cl.Fun) == "importUsed" && exprString(cl.Args[0]) == "true" {
				marks = true
			}
		}
		return true
	})
	c.Check(marks, rule, "Visit/marks-used-once", fd.Pos(), "a referenced import must be marked used (and renamed at most once)")
}

// R9.4: usage marking at write time looks at every declaration of the file, every time. Declarations are
// appended to the file when they are created and filled in later (a var/const/type block grows, a function
// body arrives at End), so marking only a part of the list - declarations not seen by an earlier write,
// a sub-slice, an early exit - leaves references without their import. In markUsed, the walk must range over
// the whole declaration list and reach ast.Walk for every element.
func r94(c *fw.Ctx) {
	const rule = "R9.4"
	fd, p := needDecl(c, rule, "markUsed")
	if fd == nil {
		return
	}
	info := p.TypesInfo
	var loops []*ast.RangeStmt
	ast.Inspect(fd.Body, func(n ast.Node) bool {
		if rs, ok := n.(*ast.RangeStmt); ok {
			walks := false
			ast.Inspect(rs.Body, func(m ast.Node) bool {
				if call, ok := m.(*ast.CallExpr); ok && isFunc(callee(info, call), "go/ast", "Walk") {
					walks = true
				}
				return true
			})
			if walks {
				loops = append(loops, rs)
			}
		}
		return true
	})
	if len(loops) != 1 {
		c.Undecided(rule, "markUsed/shape", fd.Pos(), "expected one loop that walks the file's declarations, found %d", len(loops))
		return
	}
	rs := loops[0]
	// the ranged expression is the declaration list itself
	whole := false
	if se, ok := unparen(rs.X).(*ast.SelectorExpr); ok {
		if fv, ok := info.Uses[se.Sel].(*types.Var); ok && fv.IsField() {
			if sl, ok := fv.Type().Underlying().(*types.Slice); ok && namedIs(sl.Elem(), "go/ast", "Decl") {
				whole = true
			}
		}
	}
	c.Check(whole, rule, "markUsed/walks-whole-declaration-list", rs.Pos(),
		"the usage walk ranges over `%s`; it must range over the file's complete declaration list (declarations are extended after they were first written: a partial walk drops imports)", exprString(rs.X))
	// every element reaches ast.Walk: the call is a top-level statement of the body on the loop variable, with
	// no continue/break/return before it
	elem, _ := rs.Value.(*ast.Ident)
	reached := false
	for _, st := range rs.Body.List {
		if es, ok := st.(*ast.ExprStmt); ok {
			if call, ok := es.X.(*ast.CallExpr); ok && isFunc(callee(info, call), "go/ast", "Walk") && len(call.Args) == 2 {
				if id, ok := unparen(call.Args[1]).(*ast.Ident); ok && elem != nil && info.Uses[id] == info.Defs[elem] {
					reached = true
				}
			}
			if reached {
				break
			}
		}
		// anything else before the walk that may skip it
		skip := false
		ast.Inspect(st, func(m ast.Node) bool {
			switch x := m.(type) {
			case *ast.BranchStmt:
				skip = true
			case *ast.ReturnStmt:
				_ = x
				skip = true
			}
			return true
		})
		if skip {
			break
		}
	}
	c.Check(reached, rule, "markUsed/every-declaration-walked", rs.Pos(), "every declaration of the list must be handed to ast.Walk (no skip before it)")
}

// R9.5: every package-qualified reference of a file is the file's one shared import identifier. The name an
// import finally gets is patched into that node when the file is written (astVisitor.Visit); a reference
// that holds a copy of the identifier (same Name/Obj, another node) keeps the old name when the import is
// renamed. The result of File.newImport must therefore go into the syntax as the node itself: used whole
// (field value, argument of the identity wrapper util.FakeExprOf, return value), never taken apart.
func r95(c *fw.Ctx) { r95as(c, "R9.5") }

func r95as(c *fw.Ctx, rule string) {
	p := c.Pkg("")
	info := p.TypesInfo
	n := 0
	for _, fd := range c.Decls() {
		if c.PkgOfDecl(fd) != p || fd.Body == nil {
			continue
		}
		fname := declName(c, fd)
		// variables bound to a newImport result
		shared := map[types.Object]bool{}
		ast.Inspect(fd.Body, func(m ast.Node) bool {
			as, ok := m.(*ast.AssignStmt)
			if !ok || len(as.Lhs) != 1 || len(as.Rhs) != 1 {
				return true
			}
			if call, ok := unparen(as.Rhs[0]).(*ast.CallExpr); ok && isFunc(callee(info, call), fw.Mod, "File.newImport") {
				if id, ok := as.Lhs[0].(*ast.Ident); ok {
					o := info.Defs[id]
					if o == nil {
						o = info.Uses[id]
					}
					shared[o] = true
				}
			}
			return true
		})
		if len(shared) == 0 || fname == "(*File).newImport" {
			continue
		}
		n++
		bad := ""
		var badPos token.Pos
		nUses := 0
		var stack []ast.Node
		ast.Inspect(fd.Body, func(m ast.Node) bool {
			if m == nil {
				stack = stack[:len(stack)-1]
				return true
			}
			stack = append(stack, m)
			id, ok := m.(*ast.Ident)
			if !ok || !shared[info.Uses[id]] || len(stack) < 2 {
				return true
			}
			nUses++
			switch par := stack[len(stack)-2].(type) {
			case *ast.SelectorExpr:
				if par.X == ast.Expr(id) {
					bad, badPos = "reads "+exprString(par)+" to build another node", par.Pos()
				}
			case *ast.StarExpr:
				bad, badPos = "copies the identifier (*"+id.Name+")", par.Pos()
			}
			return true
		})
		if badPos == token.NoPos {
			badPos = fd.Pos()
		}
		c.Check(bad == "" && nUses > 0, rule, fname+"/reference-is-the-shared-import-identifier", badPos,
			"the package reference must be the file's shared import identifier node itself; this function %s: a renamed import would keep its old name at this reference", bad)
	}
	c.Floor(rule, "functions building package-qualified references", n, 2)
}

// R9.6: whether a file's imports are (re)marked as used at write time is decided by File.dirty. Every
// reference handed out by File.newImport can end up in a declaration that did not exist - or did not contain
// it - at the previous write, also when the import identifier already exists (an earlier reference to the
// same package was built and discarded, or the file was written in between). So newImport (and forceImport
// when it adds an entry) must leave the file dirty on every path that returns.
func r96(c *fw.Ctx) {
	const rule = "R9.6"
	fd, p := needDecl(c, rule, "(*File).newImport")
	if fd == nil {
		return
	}
	info := p.TypesInfo
	paths, trunc := enumPaths(info, fd.Body)
	if trunc {
		c.Undecided(rule, "newImport/paths", fd.Pos(), "too many paths")
		return
	}
	nNormal, nDirty := 0, 0
	for _, pa := range paths {
		if pa.Abnormal {
			continue
		}
		nNormal++
		dirty := false
		for _, nd := range pa.Nodes {
			if as, ok := nd.(*ast.AssignStmt); ok {
				for i, l := range as.Lhs {
					if se, ok := unparen(l).(*ast.SelectorExpr); ok {
						if fv, ok := info.Uses[se.Sel].(*types.Var); ok && fv.IsField() && fv.Name() == "dirty" && i < len(as.Rhs) {
							if v := constOf(info, as.Rhs[i]); v != nil && v.String() == "true" {
								dirty = true
							}
						}
					}
				}
			}
		}
		if dirty {
			nDirty++
		}
	}
	c.Check(nNormal > 0 && nDirty == nNormal, rule, "newImport/marks-file-dirty-on-every-path", fd.Pos(),
		"%d of %d normal paths of newImport mark the file dirty: a reference to an import whose identifier already exists (built and discarded before an earlier write) is emitted without its import", nDirty, nNormal)
}

// R9.7: the usage visitor that marks imports at write time sees every child that can hold a package
// reference. An arm of astVisitor.Visit that handles a node kind itself (walks selected children and returns
// nil) must walk every child field of that node that is syntax (implements ast.Node, or a slice of such),
// apart from comments and declared names. The field set comes from the go/ast struct, not from a list.
func r97(c *fw.Ctx) {
	const rule = "R9.7"
	fd, p := needDecl(c, rule, "(*astVisitor).Visit")
	if fd == nil {
		return
	}
	info := p.TypesInfo
	astPkg := c.ByPath["go/ast"]
	if astPkg == nil {
		c.Undecided(rule, "anchor/go/ast", fd.Pos(), "go/ast not loaded")
		return
	}
	nodeIface, _ := astPkg.Types.Scope().Lookup("Node").Type().Underlying().(*types.Interface)
	isSyntax := func(t types.Type) bool {
		if sl, ok := t.Underlying().(*types.Slice); ok {
			t = sl.Elem()
		}
		if namedIs(t, "go/ast", "CommentGroup") || namedIs(t, "go/ast", "Comment") || namedIs(t, "go/ast", "Ident") || namedIs(t, "go/ast", "BasicLit") {
			return false
		}
		return types.Implements(t, nodeIface)
	}
	exceptions := map[string]string{
		"FuncDecl.Recv": "a receiver names a type of the package being generated (methods cannot be declared on imported types); its type arguments are type parameter names",
	}
	n := 0
	ast.Inspect(fd.Body, func(m ast.Node) bool {
		cc, ok := m.(*ast.CaseClause)
		if !ok || len(cc.List) != 1 {
			return true
		}
		t := info.TypeOf(cc.List[0])
		ptr, ok := t.(*types.Pointer)
		if !ok {
			return true
		}
		named, ok := ptr.Elem().(*types.Named)
		if !ok || named.Obj().Pkg() == nil || named.Obj().Pkg().Path() != "go/ast" {
			return true
		}
		st, ok := named.Underlying().(*types.Struct)
		if !ok {
			return true
		}
		// does the arm hand the node back to the generic walk (return p)? then every child is visited
		generic := false
		walked := map[string]bool{}
		ast.Inspect(cc, func(k ast.Node) bool {
			if r, ok := k.(*ast.ReturnStmt); ok && len(r.Results) == 1 {
				if tv, ok := info.Types[r.Results[0]]; ok && !tv.IsNil() {
					generic = true
				}
			}
			if se, ok := k.(*ast.SelectorExpr); ok {
				if id, ok := unparen(se.X).(*ast.Ident); ok && info.Uses[id] == info.Implicits[cc] {
					walked[se.Sel.Name] = true
				}
			}
			return true
		})
		// an arm without body falls out of the switch to `return nil`
		for i := 0; i < st.NumFields(); i++ {
			f := st.Field(i)
			if !isSyntax(f.Type()) {
				continue
			}
			key := named.Obj().Name() + "." + f.Name()
			n++
			if why, ok := exceptions[key]; ok {
				c.OK(rule, "Visit/"+key+"/excepted", cc.Pos(), "%s", why)
				continue
			}
			c.Check(generic || walked[f.Name()], rule, "Visit/"+key, cc.Pos(),
				"the visitor handles *ast.%s itself but never looks at its %s: a package referenced only there (e.g. `type G[T fmt.Stringer] struct{}`) is not marked used and its import is dropped", named.Obj().Name(), f.Name())
		}
		return true
	})
	c.Floor(rule, "syntax children of specially handled nodes", n, 6)
}
