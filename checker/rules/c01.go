package rules

import "gogenvet/fw"

func init() {
	register("C01", Prop{
		NeedSSA: true,
		Run:     runC01,
		Explanation: "R1.1 value-without-type: every operand slot whose expression is placed in the output has its type inspected (or is handed to a function that does) — a construct that emits an operand without looking at its type cannot be type-checking it; " +
			"R1.2 the verdict of every checker call (matchType, matchFuncType, AssignableConv, ComparableTo, ConvertibleTo, ...) is consumed by a branch, panic or return; " +
			"R1.3 the conversion node is built only under a convertibility verdict and a one-argument test; " +
			"R1.4 the operand classes of the builtin operator templates transcribe the spec's operator tables",
		NotDecided: "that the checks themselves are right (e.g. typed constant overflow not rejected); only that a check is made, its verdict used, and the operator classes are the spec's",
	})
}

func runC01(c *fw.Ctx) {
	r11(c)
	r12(c)
	r13(c)
	checkLoops(c, "R1.5")
	r16redecl(c)
	restoreUnconditional(c, "R1.7")
	r14(c)
}
