// Package rules holds one file per property (cNN.go) plus the shared engines.
package rules

import "gogenvet/fw"

type Prop struct {
	NeedSSA     bool
	Run         func(c *fw.Ctx)
	Explanation string // what the rules decide
	NotDecided  string // what they do not
}

// Coarse selects the CHA call graph (thorough tier cross-check).
var Coarse bool

var Registry = map[string]Prop{}

func register(id string, p Prop) {
	if x, ok := extraExplain[id]; ok {
		p.Explanation += "; " + x
	}
	Registry[id] = p
}

// extraExplain: the rules added after the seeded-change review (generated from tools/newrules.json).
var extraExplain = map[string]string{
	"C01": "R1.1 value-without-type: every operand slot taken from the stack (Pop/Get/GetArgs element, Call(args) of builtin instructions) whose Val goes into emitted syntax has its Type read, or is handed to a function whose summary inspects that parameter, on every acyclic path through the emission (helpers export the obligation through per-parameter summaries; slices handed over whole need an exact-arity test); R1.2 the verdict of every checker call is consumed (not a statement, not assigned to blank, read afterwards); R1.3 every path that jumps to the conversion node passes the true edge of len(args)==1 and ConvertibleTo (fall-through paths: known findings); R1.5 loops that apply a checker to the elements of an operand list reach the check on every iteration that continues; R1.6 re-use of an already declared object by := checks the new value against the existing type on every normal path; R1.7 restoreArgs restores unconditionally.",
	"C02": "R2.3 the index and range container tables accept the same pointer-to-array operands; R2.4 ComparableTo asks assignability in both directions, each with the operand of its source side, and the untyped arms pair each untyped operand with its own basic type; R2.5 a conversion to a receive-only channel or pointer type is parenthesised.",
	"C03": "R3.3 a branch that rewrites an expression into pointer form also builds the pointer type it reports; R3.4 ConstDefs.NewAt overwrites both remembered repetition fields (callback, type) from its parameters on every normal path; R3.5 the receiver parameter of a method-expression signature is data-dependent on the type the expression was written on, on every path of methodSigOf; R3.6 every site that sets the call matcher's untyped-result flag sits under a test of the operands' untypedness (all operands; the left one alone only under an operator-class table test, as for shifts) - an operation with a typed constant operand yields a typed constant (one known finding: the flag is set whenever the operation could be folded).",
	"C04": "R4.6 the basic-kind classifiers isUnsigned / isNumeric, evaluated for all basic kinds by constant arithmetic on their Kind()/Info() expression, agree with go/types' flags; R4.7 a field overridden for the duration of a call and restored by a deferred function is restored with a value read before the override (iota context).",
	"C05": "R5.4 mutual assignability in ComparableTo in both directions with the right operand each, untyped arms pair operand/type correctly (symmetry).",
	"C06": "R6.2 also: restoreArgs restores every saved field unconditionally (a guard is tolerated only if it is a disjunction of inequality tests naming every restored field); R6.5 the check loops of the functions that receive a candidate's argument list (matchFuncArgs, matchVariadicArgs) cover every element.",
	"C07": "R7.4 the result and error returned by infer are produced by the current call (no field of memory reachable from a parameter; the checker's error callback stores into no such field); R7.5 every acceptance site of an operand type (matchFuncCall, matchType, DefaultConv, AssignableConv, checkAssignType for the blank identifier) recognises the deferred-inference placeholder type and forces the inference.",
	"C08": "R8.3 on every path of findMember no depth-0 lookup (normalField, method) follows a promoted lookup (embeddedField, field); R8.4 = R3.5 (method-expression receiver is the written type); R8.5 a loop that descends into embedded fields (tests Embedded() and hands the field's type to a lookup) does not apply the access test to the embedded field itself: promotion passes through unexported embedded fields.",
	"C09": "R9.3 is path-based: on every normal path of importName (loops taken up to twice) the returned candidate was tested false against declared names and the file's import names after its last assignment, and is registered; R9.4 markUsed walks the file's whole declaration list and reaches ast.Walk for every element; R9.5 package-qualified references use the file's shared import identifier node itself (never a copy); R9.6 newImport marks the file dirty on every path (defect found, repaired in /repo).",
	"C10": "R10.3 tolerates a labels!=nil guard around checkLabels; R10.5 a function body starts with empty label and panic-call tables (labels are function-scoped).",
	"C11": "R11.2 the loop that zero-fills omitted arguments is covered by an isParamOptional test over the same index range; R11.3 every normal path of RangeAssignThen takes over the statements emitted while the range header was built (hoisted any-member assertions).",
	"C12": "R12.3 also evaluates the condition under which a channel conversion is parenthesised (must hold for receive-only); R12.4 the statement-comment lookup, keyed by the statement being printed, sits in the printer function that dispatches over every statement kind, before the switch; R12.5 the single-type-parameter comma decision recognises pointer, binary (recursing left) and parenthesised constraints.",
	"C13": "R13.5 = R9.5 (type references use the shared import identifier node).",
	"C14": "R14.4 the Named and Alias arms of Zero unwrap the requested type itself (no Origin()).",
	"C15": "R15.1 a sort that follows a map walk restores determinism only if it is total on what is emitted: sort.Slice keys must be the emitted projection or derive from the map's range key.",
	"C16": "R16.3 is type-resolved (any assignment form) and path-based for the restore: every funcBodyCtx field is saved before it is overwritten in startFuncBody and restored on every normal path of endFuncBody; startFuncBody starts labels/panicCalls empty and installs the new function; R16.4 the stack primitives Push/Pop/PopN/Ret/SetLen are branch-free and their new length, computed symbolically from their single store, is L+1, L-1, L-n, L-arity+len(results), base.",
	"C17": "R17.4 visited sets (parameters of type map[K]struct{}) of the recursive member search only grow (no delete/clear/replacement).",
	"C18": "E5 now lets every library-allocated object of a type declared in the analysed packages come back as the receiver or a pointer argument of any API root (hand-back), and treats append to a slice literal's array as in-place once any slice expression cuts that array short; R18.4 a pooled object (and storage taken from it) is not used after it was put back into its sync.Pool on any path.",
	"C19": "R19.4 in the generic-signature arm of the hasher the by-index mode flag is set before any component is hashed; R19.5 the bucket scans of Set/At/Delete leave early only by returning on an Identical match.",
	"C20": "R20.6 every iteration of Prepare over the listing stores a record (no skip before Store); R20.7 the dependency slice of every record built by Prepare and loadCachePkgs is allocated in the iteration that builds it.",
}
