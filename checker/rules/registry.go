// Package rules holds one file per property (cNN.go) plus the shared engines.
package rules

import "gogenvet/fw"

type Prop struct {
	NeedSSA     bool
	Run         func(c *fw.Ctx)
	Explanation string // what the rules decide
	NotDecided  string // what they do not
}

// Coarse selects the CHA call graph (thorough tier cross-check).
var Coarse bool

var Registry = map[string]Prop{}

func register(id string, p Prop) { Registry[id] = p }
