package rules

import (
	"go/ast"
	"go/token"
	"go/types"

	"gogenvet/fw"
)

// check loops: a loop over operands that applies a checker to the loop's element must apply it on
// every iteration that goes on to the next one. An iteration may leave the loop early (error), but
// it may not `continue` past the check, and the check may not sit under a condition that some
// iterations fail.
//
// ruleID is R1.5 (C01: a check that is made for some elements only is not made) or R6.5 (C06:
// applicability of a candidate is decided on all arguments).
func checkLoops(c *fw.Ctx, rule string) { checkLoopsIn(c, rule, nil) }

// checkLoopsIn restricts the rule to the given functions (nil = every function of the root package).
func checkLoopsIn(c *fw.Ctx, rule string, only map[*types.Func]bool) {
	p := c.Pkg("")
	info := p.TypesInfo
	isElemChecker := func(fn *types.Func) bool {
		if isCheckerFunc(fn) {
			return true
		}
		return fn != nil && fn.Pkg() != nil && fn.Pkg().Path() == fw.Mod && (fn.Name() == "checkAssignType" || fn.Name() == "checkAssign")
	}
	nLoops := 0
	for _, fd := range c.Decls() {
		if c.PkgOfDecl(fd) != p || fd.Body == nil {
			continue
		}
		if only != nil {
			if fn, _ := info.Defs[fd.Name].(*types.Func); !only[fn] {
				continue
			}
		}
		fname := declName(c, fd)
		count := 0
		ast.Inspect(fd.Body, func(n ast.Node) bool {
			var body *ast.BlockStmt
			var elemVar, idxVar types.Object
			switch l := n.(type) {
			case *ast.RangeStmt:
				if !isElemSlice(info.TypeOf(l.X)) {
					return true // not a loop over operands
				}
				body = l.Body
				if id, ok := l.Value.(*ast.Ident); ok && id.Name != "_" {
					elemVar = info.Defs[id]
					if elemVar == nil {
						elemVar = info.Uses[id]
					}
				}
				if id, ok := l.Key.(*ast.Ident); ok && id.Name != "_" {
					idxVar = info.Defs[id]
					if idxVar == nil {
						idxVar = info.Uses[id]
					}
				}
			case *ast.ForStmt:
				body = l.Body
				if as, ok := l.Init.(*ast.AssignStmt); ok && len(as.Lhs) == 1 {
					if id, ok := as.Lhs[0].(*ast.Ident); ok {
						idxVar = info.Defs[id]
					}
				}
			default:
				return true
			}
			if elemVar == nil && idxVar == nil {
				return true
			}
			// is e (an argument of a checker call) the loop's element?
			isElem := func(e ast.Expr) bool {
				e = unparen(e)
				if se, ok := e.(*ast.SelectorExpr); ok { // arg.Type handed to a type-only predicate
					e = unparen(se.X)
				}
				switch x := e.(type) {
				case *ast.Ident:
					return elemVar != nil && info.Uses[x] == elemVar && (isElemPtr(elemVar.Type()))
				case *ast.IndexExpr:
					if !isElemPtr(info.TypeOf(x)) {
						return false
					}
					used := false
					ast.Inspect(x.Index, func(m ast.Node) bool {
						if id, ok := m.(*ast.Ident); ok && idxVar != nil && info.Uses[id] == idxVar {
							used = true
						}
						return true
					})
					return used
				}
				return false
			}
			isCheck := func(call *ast.CallExpr) bool {
				fn, _ := callee(info, call).(*types.Func)
				if !isElemChecker(fn) {
					return false
				}
				for _, a := range call.Args {
					if isElem(a) {
						return true
					}
				}
				return false
			}
			// does the loop body contain an element check at all (not inside a nested loop / closure)?
			var checks []*ast.CallExpr
			var walk func(n ast.Node)
			walk = func(n ast.Node) {
				ast.Inspect(n, func(m ast.Node) bool {
					switch x := m.(type) {
					case *ast.FuncLit:
						return false
					case *ast.RangeStmt, *ast.ForStmt:
						if m != n {
							return false
						}
					case *ast.CallExpr:
						if isCheck(x) {
							checks = append(checks, x)
						}
					}
					return true
				})
			}
			for _, st := range body.List {
				walk(st)
			}
			if len(checks) == 0 {
				return true
			}
			nLoops++
			count++
			key := sprintf("%s/check-loop#%d", fname, count)
			// unconditional part of a statement: the expressions evaluated whenever the statement is reached
			uncond := func(st ast.Stmt) []ast.Node {
				switch s := st.(type) {
				case *ast.ExprStmt:
					return []ast.Node{s.X}
				case *ast.AssignStmt:
					var r []ast.Node
					for _, e := range s.Rhs {
						r = append(r, e)
					}
					return r
				case *ast.DeclStmt:
					return []ast.Node{s}
				case *ast.ReturnStmt:
					return []ast.Node{s}
				case *ast.IfStmt:
					var r []ast.Node
					if s.Init != nil {
						r = append(r, s.Init)
					}
					// leftmost operand of the condition
					cond := unparen(s.Cond)
					for {
						be, ok := cond.(*ast.BinaryExpr)
						if !ok || (be.Op != token.LAND && be.Op != token.LOR) {
							break
						}
						cond = unparen(be.X)
					}
					return append(r, cond)
				case *ast.SwitchStmt:
					var r []ast.Node
					if s.Init != nil {
						r = append(r, s.Init)
					}
					if s.Tag != nil {
						r = append(r, s.Tag)
					}
					return r
				}
				return nil
			}
			hasCheck := func(nodes []ast.Node) bool {
				found := false
				for _, n := range nodes {
					ast.Inspect(n, func(m ast.Node) bool {
						if _, ok := m.(*ast.FuncLit); ok {
							return false
						}
						if call, ok := m.(*ast.CallExpr); ok && isCheck(call) {
							found = true
						}
						return !found
					})
				}
				return found
			}
			// continues (of this loop) inside a statement
			hasContinue := func(st ast.Stmt) (bool, token.Pos) {
				found, at := false, token.NoPos
				var rec func(n ast.Node, depth int)
				rec = func(n ast.Node, depth int) {
					ast.Inspect(n, func(m ast.Node) bool {
						if m == nil || found {
							return false
						}
						switch x := m.(type) {
						case *ast.FuncLit:
							return false
						case *ast.RangeStmt:
							if m != n {
								rec(x.Body, depth+1)
								return false
							}
						case *ast.ForStmt:
							if m != n {
								rec(x.Body, depth+1)
								return false
							}
						case *ast.BranchStmt:
							if x.Tok == token.CONTINUE && (depth == 0 || x.Label != nil) {
								found, at = true, x.Pos()
							}
						}
						return true
					})
				}
				rec(st, 0)
				return found, at
			}
			assignedInLoop := map[types.Object]bool{}
			if elemVar != nil {
				assignedInLoop[elemVar] = true
			}
			if idxVar != nil {
				assignedInLoop[idxVar] = true
			}
			ast.Inspect(body, func(m ast.Node) bool {
				switch x := m.(type) {
				case *ast.AssignStmt:
					for _, l := range x.Lhs {
						if id, ok := unparen(l).(*ast.Ident); ok {
							if o := info.Defs[id]; o != nil {
								assignedInLoop[o] = true
							}
							if o := info.Uses[id]; o != nil {
								assignedInLoop[o] = true
							}
						}
					}
				case *ast.IncDecStmt:
					if id, ok := unparen(x.X).(*ast.Ident); ok {
						assignedInLoop[info.Uses[id]] = true
					}
				}
				return true
			})
			invariant := func(e ast.Expr) bool {
				inv := true
				ast.Inspect(e, func(m ast.Node) bool {
					switch x := m.(type) {
					case *ast.Ident:
						if o := info.Uses[x]; o != nil && assignedInLoop[o] {
							inv = false
						}
					case *ast.CallExpr, *ast.IndexExpr:
						inv = false
					}
					return inv
				})
				return inv
			}
			checksIn := func(n ast.Node) bool { return hasCheck([]ast.Node{n}) }
			// covered(stmts): every path through stmts that falls out of the end (or continues) has passed a check
			var covered func(stmts []ast.Stmt) (bool, token.Pos, string)
			covered = func(stmts []ast.Stmt) (bool, token.Pos, string) {
				for _, st := range stmts {
					if hasCheck(uncond(st)) {
						return true, token.NoPos, ""
					}
					switch s := st.(type) {
					case *ast.IfStmt:
						// a condition over variables the loop does not assign (a mode of the whole construct, such
						// as "an explicit type was given") selects whether elements need checking at all: only
						// the arm(s) present are judged
						if s.Init == nil && invariant(s.Cond) {
							thenOK, tp, tw := covered(s.Body.List)
							if !thenOK && !leavesLoop(info, s.Body.List) {
								if checksIn(s.Body) {
									return false, tp, tw
								}
								continue
							}
							if s.Else == nil {
								return true, token.NoPos, ""
							}
						}
						// both arms covered => covered; an arm that leaves the loop counts as covered
						thenOK, tp, tw := covered(s.Body.List)
						thenOK = thenOK || leavesLoop(info, s.Body.List)
						elseOK, ep, ew := false, token.NoPos, ""
						switch e := s.Else.(type) {
						case *ast.BlockStmt:
							elseOK, ep, ew = covered(e.List)
							elseOK = elseOK || leavesLoop(info, e.List)
						case *ast.IfStmt:
							elseOK, ep, ew = covered([]ast.Stmt{e})
						}
						if thenOK && elseOK {
							return true, token.NoPos, ""
						}
						// a continue inside an uncovered arm skips the check
						if !thenOK {
							if f, at := hasContinue(s.Body); f {
								return false, at, "an iteration continues before the element check"
							}
							_ = tp
							_ = tw
						}
						if s.Else != nil && !elseOK {
							if f, at := hasContinue(s.Else); f {
								return false, at, "an iteration continues before the element check"
							}
							_ = ep
							_ = ew
						}
					default:
						if f, at := hasContinue(st); f {
							return false, at, "an iteration continues before the element check"
						}
					}
				}
				return false, token.NoPos, "the element check is made under a condition only"
			}
			ok, at, why := covered(body.List)
			if ok {
				c.OK(rule, key, checks[0].Pos(), "every iteration that goes on passes the element check %s", exprString(checks[0].Fun))
			} else {
				if at == token.NoPos {
					at = checks[0].Pos()
				}
				// conditional checks: listed for the frozen table below
				c.Violate(rule, key, at, "%s (%s): some elements are accepted without being checked", why, exprString(checks[0].Fun))
			}
			return true
		})
	}
	floor := 8
	if only != nil {
		floor = 2
	}
	c.Floor(rule, "check loops", nLoops, floor)
}

// leavesLoop: the statement list ends by leaving the loop (return, panic, break, goto).
func leavesLoop(info *types.Info, stmts []ast.Stmt) bool {
	if len(stmts) == 0 {
		return false
	}
	switch s := stmts[len(stmts)-1].(type) {
	case *ast.ReturnStmt:
		return true
	case *ast.BranchStmt:
		return s.Tok == token.BREAK || s.Tok == token.GOTO
	case *ast.ExprStmt:
		if call, ok := s.X.(*ast.CallExpr); ok {
			return !neverReturns(info)(call)
		}
	}
	return false
}

// R1.6: an object that is already declared in the scope may only be reused (the `old != nil` arm of a
// Scope.Insert that does not end in an error report) after the new value was checked against the
// existing object's type: `a, b := f()` with an existing `a` assigns to it.
func r16redecl(c *fw.Ctx) {
	const rule = "R1.6"
	p := c.Pkg("")
	info := p.TypesInfo
	errT := types.Universe.Lookup("error").Type()
	nSites, nReuse := 0, 0
	for _, fd := range c.Decls() {
		if c.PkgOfDecl(fd) != p || fd.Body == nil {
			continue
		}
		fname := declName(c, fd)
		count := 0
		ast.Inspect(fd.Body, func(n ast.Node) bool {
			is, ok := n.(*ast.IfStmt)
			if !ok || is.Init == nil {
				return true
			}
			as, ok := is.Init.(*ast.AssignStmt)
			if !ok || len(as.Lhs) != 1 || len(as.Rhs) != 1 {
				return true
			}
			call, ok := unparen(as.Rhs[0]).(*ast.CallExpr)
			if !ok || !isFunc(callee(info, call), "go/types", "Scope.Insert") {
				return true
			}
			id, ok := as.Lhs[0].(*ast.Ident)
			if !ok {
				return true
			}
			old := info.Defs[id]
			be, ok := unparen(is.Cond).(*ast.BinaryExpr)
			if old == nil || !ok || be.Op != token.NEQ {
				return true
			}
			if x, ok := unparen(be.X).(*ast.Ident); !ok || info.Uses[x] != old {
				return true
			}
			nSites++
			count++
			paths, trunc := enumPaths(info, is.Body)
			if trunc {
				c.Undecided(rule, sprintf("%s/insert-old#%d/paths", fname, count), is.Pos(), "too many paths")
				return true
			}
			mentionsOld := func(e ast.Node) bool {
				found := false
				ast.Inspect(e, func(m ast.Node) bool {
					if x, ok := m.(*ast.Ident); ok && info.Uses[x] == old {
						found = true
					}
					return !found
				})
				return found
			}
			reuse, unchecked := 0, 0
			for _, pa := range paths {
				if pa.Abnormal {
					continue
				}
				// a path that returns a non-nil error is an error report, not a reuse
				isErr := false
				for _, nd := range pa.Nodes {
					if r, ok := nd.(*ast.ReturnStmt); ok {
						for _, e := range r.Results {
							if tv, ok := info.Types[e]; ok && !tv.IsNil() && types.Identical(tv.Type, errT) {
								isErr = true
							}
						}
					}
				}
				if isErr {
					continue
				}
				reuse++
				checked := false
				for _, cl := range callsIn(pa.Nodes) {
					fn, _ := callee(info, cl).(*types.Func)
					if !isCheckerFunc(fn) && !isFunc(fn, "go/types", "Identical") {
						continue
					}
					for _, a := range cl.Args {
						if mentionsOld(a) {
							checked = true
						}
					}
				}
				if !checked {
					unchecked++
				}
			}
			key := sprintf("%s/insert-old#%d", fname, count)
			if reuse == 0 {
				c.OK(rule, key, is.Pos(), "every path through the already-declared arm reports an error")
				return true
			}
			nReuse++
			c.Check(unchecked == 0, rule, key+"/reuse-checked", is.Pos(),
				"%d of %d normal paths that reuse the already-declared object do not check the new value against its type: `a, b := f()` with an existing a of another type is accepted", unchecked, reuse)
			return true
		})
	}
	c.Floor(rule, "Scope.Insert sites with an already-declared arm", nSites, 6)
	c.Floor(rule, "reuse arms", nReuse, 1)
}
