package rules

import (
	"go/ast"
	"go/token"
	"go/types"
	"strings"

	"golang.org/x/tools/go/packages"

	"gogenvet/fw"
)

func init() {
	register("C14", Prop{
		NeedSSA: false,
		Run:     runC14,
		Explanation: "R14.1 Package.Zero has a case (or the composite default) for every types.Type implementer inside the property's domain; " +
			"R14.2 on every path where the requested type was unwrapped through Named/Alias before the literal was chosen, a literal that has a default type of its own (false, \"\", 0, T{}) must be made to depend on the requested type (conversion or literal of the named type) — nil is exempt because untyped nil has no default type; the element reports the requested type; " +
			"R14.3 the three users (error-return padding, omitted optional arguments, T()) obtain their value from Zero with the type of the position they fill",
		NotDecided: "that each literal is the zero value of its kind (checked only by kind: bool/false, string/\"\", numeric/0, reference kinds/nil)",
	})
}

func runC14(c *fw.Ctx) {
	r141(c)
	r143(c)
	r144(c)
}

func r141(c *fw.Ctx) {
	const rule = "R14.1"
	fd, p := needDecl(c, rule, "(*Package).Zero")
	if fd == nil {
		return
	}
	info := p.TypesInfo
	cases, sw := switchCaseTypes(info, fd)
	if cases == nil {
		c.Undecided(rule, "Zero/shape", fd.Pos(), "no type switch")
		return
	}
	outside := map[string]string{
		"TypeParam": "outside the property's domain (no zero literal exists for a type parameter; *new(T) would be needed)",
		"Tuple":     "not a value type",
		"Union":     "not a value type",
	}
	composite := map[string]bool{"Array": true, "Struct": true}
	nilKinds := map[string]bool{"Interface": true, "Map": true, "Slice": true, "Pointer": true, "Signature": true, "Chan": true}
	impl := typeImplementers(c)
	c.Floor(rule, "types.Type implementers", len(impl), 12)
	for _, t := range impl {
		if why, ok := outside[t]; ok {
			c.OK(rule, "Zero/"+t, fd.Pos(), "%s", why)
			continue
		}
		cc, explicit := cases[t]
		_, hasDefault := cases["default"]
		switch {
		case composite[t]:
			// must reach the composite-literal producer (explicitly or by default)
			body := cc
			if !explicit {
				body = cases["default"]
			}
			ok := false
			if body != nil {
				for _, st := range body.Body {
					ast.Inspect(st, func(n ast.Node) bool {
						if call, isC := n.(*ast.CallExpr); isC && isFunc(callee(info, call), fw.Mod, "zeroCompositeLit") {
							ok = true
						}
						if l, isL := n.(*ast.CompositeLit); isL && namedIs(info.TypeOf(l), "go/ast", "CompositeLit") {
							ok = true
						}
						return true
					})
				}
			}
			c.Check(ok, rule, "Zero/"+t, sw.Pos(), "*types.%s must yield a composite literal", t)
		case nilKinds[t]:
			ok := false
			if explicit {
				for _, st := range cc.Body {
					ast.Inspect(st, func(n ast.Node) bool {
						if call, isC := n.(*ast.CallExpr); isC && len(call.Args) == 1 {
							if s, isS := constString(info, call.Args[0]); isS && s == "nil" {
								ok = true
							}
						}
						return true
					})
				}
			}
			c.Check(ok, rule, "Zero/"+t, sw.Pos(), "*types.%s must yield nil (a composite literal of a %s type is not its zero value)", t, strings.ToLower(t))
		default: // Basic, Named, Alias
			c.Check(explicit || hasDefault, rule, "Zero/"+t, sw.Pos(), "no case for *types.%s", t)
			if t == "Named" || t == "Alias" {
				c.Check(explicit, rule, "Zero/"+t+"/unwrapped", sw.Pos(), "*types.%s must be unwrapped to its underlying/actual type before the literal is chosen", t)
			}
		}
	}
	r142(c, fd, p, cases, sw)
}

func r142(c *fw.Ctx, fd *ast.FuncDecl, p *packages.Package, cases map[string]*ast.CaseClause, sw *ast.TypeSwitchStmt) {
	const rule = "R14.2"
	info := p.TypesInfo
	// the requested type is remembered in a variable initialised from the parameter: `var typ0 = typ`
	param := info.Defs[fd.Type.Params.List[0].Names[0]]
	var typ0 types.Object
	inspectFunc(fd, func(n ast.Node) bool {
		switch s := n.(type) {
		case *ast.ValueSpec:
			for i, nm := range s.Names {
				if i < len(s.Values) {
					if id, ok := unparen(s.Values[i]).(*ast.Ident); ok && info.Uses[id] == param && typ0 == nil {
						typ0 = info.Defs[nm]
					}
				}
			}
		case *ast.AssignStmt:
			if s.Tok == token.DEFINE && len(s.Lhs) == 1 && len(s.Rhs) == 1 && typ0 == nil {
				if id, ok := unparen(s.Rhs[0]).(*ast.Ident); ok && info.Uses[id] == param {
					if l, ok := s.Lhs[0].(*ast.Ident); ok {
						typ0 = info.Defs[l]
					}
				}
			}
		}
		return true
	})
	// unwrap cases: assign the switch tag and jump back
	unwraps := false
	for _, t := range []string{"Named", "Alias"} {
		if cc, ok := cases[t]; ok {
			for _, st := range cc.Body {
				if b, ok := st.(*ast.BranchStmt); ok && b.Tok == token.GOTO {
					unwraps = true
				}
			}
		}
	}
	if !unwraps {
		c.OK(rule, "Zero/no-unwrap-loop", fd.Pos(), "the literal is chosen on the requested type itself")
		return
	}
	// the element reports the requested type
	reportsTyp0 := false
	inspectFunc(fd, func(n ast.Node) bool {
		if r, ok := n.(*ast.ReturnStmt); ok && len(r.Results) == 1 {
			if lit := asLit(r.Results[0]); lit != nil {
				f := structFields(info, lit)
				if id, ok := unparen(f["Type"]).(*ast.Ident); ok && typ0 != nil && info.Uses[id] == typ0 {
					reportsTyp0 = true
				}
			}
		}
		return true
	})
	c.Check(reportsTyp0, rule, "Zero/reports-requested-type", fd.Pos(), "the element returned by Zero must report the requested type, not the unwrapped one")

	mentions := func(e ast.Node, obj types.Object) bool {
		found := false
		ast.Inspect(e, func(n ast.Node) bool {
			if id, ok := n.(*ast.Ident); ok && obj != nil && info.Uses[id] == obj {
				found = true
			}
			return true
		})
		return found
	}
	// a later statement that rewrites val using typ0 repairs every site
	var valObj types.Object
	type site struct {
		key  string
		expr ast.Expr
		pos  token.Pos
	}
	var sites []site
	var collect func(label string, stmts []ast.Stmt)
	collect = func(label string, stmts []ast.Stmt) {
		for _, st := range stmts {
			switch s := st.(type) {
			case *ast.AssignStmt:
				if len(s.Lhs) >= 1 && len(s.Rhs) >= 1 {
					if id, ok := s.Lhs[0].(*ast.Ident); ok && id.Name == "val" {
						valObj = info.Uses[id]
						sites = append(sites, site{label, s.Rhs[0], s.Pos()})
					}
				}
			case *ast.SwitchStmt:
				for _, cl := range s.Body.List {
					cc := cl.(*ast.CaseClause)
					l := "default"
					if len(cc.List) > 0 {
						var ns []string
						for _, e := range cc.List {
							ns = append(ns, strings.TrimPrefix(exprString(e), "types."))
						}
						l = strings.Join(ns, ",")
					}
					collect(label+"/"+l, cc.Body)
				}
			}
		}
	}
	for _, cl := range sw.Body.List {
		cc := cl.(*ast.CaseClause)
		l := "default"
		if len(cc.List) > 0 {
			l = strings.TrimPrefix(exprString(cc.List[0]), "*types.")
		}
		collect(l, cc.Body)
	}
	repaired := false
	if valObj != nil && typ0 != nil {
		// statements after the switch
		after := false
		for _, st := range fd.Body.List {
			if ls, ok := st.(*ast.LabeledStmt); ok && ls.Stmt == ast.Stmt(sw) {
				after = true
				continue
			}
			if st == ast.Stmt(sw) {
				after = true
				continue
			}
			if !after {
				continue
			}
			ast.Inspect(st, func(n ast.Node) bool {
				if as, ok := n.(*ast.AssignStmt); ok && len(as.Lhs) == 1 && len(as.Rhs) == 1 {
					if id, ok := as.Lhs[0].(*ast.Ident); ok && info.Uses[id] == valObj && mentions(as.Rhs[0], typ0) {
						repaired = true
					}
				}
				return true
			})
		}
	}
	n := 0
	for _, s := range sites {
		n++
		key := "Zero/" + s.key
		e := unparen(s.expr)
		// nil has no default type: exempt
		if call, ok := e.(*ast.CallExpr); ok && len(call.Args) == 1 {
			if str, ok := constString(info, call.Args[0]); ok && str == "nil" && isFunc(callee(info, call), fw.Mod, "ident") {
				c.OK(rule, key, s.pos, "nil: untyped nil has no default type, it takes the type its context expects")
				continue
			}
		}
		dep := false
		if call, ok := e.(*ast.CallExpr); ok {
			// helper: the argument carrying typ0 must be read by the helper
			if fn, ok := callee(info, call).(*types.Func); ok && c.DeclOf(fn) != nil {
				hfd := c.DeclOf(fn)
				hinfo := c.PkgOfDecl(hfd).TypesInfo
				idx := 0
				var params []types.Object
				for _, f := range hfd.Type.Params.List {
					for _, nm := range f.Names {
						params = append(params, hinfo.Defs[nm])
					}
				}
				for i, a := range call.Args {
					if mentions(a, typ0) && i < len(params) {
						used := false
						ast.Inspect(hfd.Body, func(n ast.Node) bool {
							if id, ok := n.(*ast.Ident); ok && hinfo.Uses[id] == params[i] {
								used = true
							}
							return true
						})
						if used {
							dep = true
						}
					}
					idx++
				}
			}
		} else if mentions(e, typ0) {
			dep = true
		}
		c.Check(dep || repaired, rule, key, s.pos,
			"after unwrapping a named/alias type the literal %s does not depend on the requested type: `x := <literal>` gets the literal's default type, while the builder reports the named type", exprString(s.expr))
	}
	c.Floor(rule, "literal sites", n, 5)
}

func r143(c *fw.Ctx) {
	const rule = "R14.3"
	// (a) ReturnErr: the i-th padding value is Zero(results.At(i).Type())
	if fd, p := needDecl(c, rule, "(*CodeBuilder).ReturnErr"); fd != nil {
		info := p.TypesInfo
		ok := false
		inspectFunc(fd, func(n ast.Node) bool {
			fs, isFor := n.(*ast.ForStmt)
			if !isFor || fs.Init == nil {
				return true
			}
			as, _ := fs.Init.(*ast.AssignStmt)
			if as == nil || len(as.Lhs) != 1 {
				return true
			}
			iv := exprString(as.Lhs[0])
			ast.Inspect(fs.Body, func(m ast.Node) bool {
				if call, isC := m.(*ast.CallExpr); isC && isFunc(callee(info, call), fw.Mod, "Package.Zero") && len(call.Args) == 1 {
					s := exprString(call.Args[0])
					if strings.HasSuffix(s, ".At("+iv+").Type()") && strings.HasPrefix(s, "results") {
						ok = true
					}
				}
				return true
			})
			return true
		})
		c.Check(ok, rule, "ReturnErr/padding-typed-by-position", fd.Pos(), "the i-th padding value of an error return must be Zero of the i-th result type")
	}
	// (b) optional arguments: newArgs[i] = pkg.Zero(getParam(sig, i).Type())
	if fd, p := needDecl(c, rule, "matchFuncCall"); fd != nil {
		info := p.TypesInfo
		ok := false
		inspectFunc(fd, func(n ast.Node) bool {
			fs, isFor := n.(*ast.ForStmt)
			if !isFor {
				return true
			}
			// param := getParam(sig, i); newArgs[i] = pkg.Zero(param.Type())
			var paramVar, idxOfParam string
			for _, st := range fs.Body.List {
				as, isA := st.(*ast.AssignStmt)
				if !isA || len(as.Lhs) != 1 || len(as.Rhs) != 1 {
					continue
				}
				if call, isC := as.Rhs[0].(*ast.CallExpr); isC {
					if isFunc(callee(info, call), fw.Mod, "getParam") && len(call.Args) == 2 {
						paramVar, idxOfParam = exprString(as.Lhs[0]), exprString(call.Args[1])
					}
					if isFunc(callee(info, call), fw.Mod, "Package.Zero") && len(call.Args) == 1 {
						if ix, isIx := as.Lhs[0].(*ast.IndexExpr); isIx && paramVar != "" &&
							exprString(ix.Index) == idxOfParam && exprString(call.Args[0]) == paramVar+".Type()" {
							ok = true
						}
					}
				}
			}
			return true
		})
		c.Check(ok, rule, "matchFuncCall/optional-typed-by-position", fd.Pos(), "an omitted optional argument at position i must be Zero of parameter i's type")
	}
	// (c) T(): ZeroLit(typ) with typ the conversion target
	if fd, p := needDecl(c, rule, "matchTypeCast"); fd != nil {
		info := p.TypesInfo
		target := info.Defs[fd.Type.Params.List[1].Names[0]]
		ok := false
		inspectFunc(fd, func(n ast.Node) bool {
			if call, isC := n.(*ast.CallExpr); isC && (isFunc(callee(info, call), fw.Mod, "CodeBuilder.ZeroLit") || isFunc(callee(info, call), fw.Mod, "Package.Zero")) && len(call.Args) == 1 {
				if id, isId := unparen(call.Args[0]).(*ast.Ident); isId && info.Uses[id] == target {
					ok = true
				}
			}
			return true
		})
		c.Check(ok, rule, "matchTypeCast/zero-arg-conversion", fd.Pos(), "T() must yield Zero of the conversion's target type")
	}
	// ZeroLit delegates to Zero with its own argument
	if fd, p := needDecl(c, rule, "(*CodeBuilder).ZeroLit"); fd != nil {
		info := p.TypesInfo
		param := info.Defs[fd.Type.Params.List[0].Names[0]]
		ok := false
		inspectFunc(fd, func(n ast.Node) bool {
			if call, isC := n.(*ast.CallExpr); isC && isFunc(callee(info, call), fw.Mod, "Package.Zero") && len(call.Args) == 1 {
				if id, isId := unparen(call.Args[0]).(*ast.Ident); isId && info.Uses[id] == param {
					ok = true
				}
			}
			return true
		})
		c.Check(ok, rule, "ZeroLit/delegates", fd.Pos(), "ZeroLit must push Zero of its argument")
	}
}

// R14.4: when Zero unwraps a named (or alias) type to look at its structure, it must unwrap the requested
// type itself. The underlying type of an instantiated generic has the type arguments substituted; the
// underlying type of its origin still mentions the type parameters (`struct{first T}{}` is not Go outside
// the generic declaration). In the Named/Alias arms the value the switch variable is replaced with is a
// function of the case variable itself - no Origin(), no other type derived from it.
func r144(c *fw.Ctx) {
	const rule = "R14.4"
	fd, p := needDecl(c, rule, "(*Package).Zero")
	if fd == nil {
		return
	}
	info := p.TypesInfo
	n := 0
	ast.Inspect(fd.Body, func(m ast.Node) bool {
		ts, ok := m.(*ast.TypeSwitchStmt)
		if !ok {
			return true
		}
		for _, cl := range ts.Body.List {
			cc := cl.(*ast.CaseClause)
			if len(cc.List) != 1 {
				continue
			}
			ct := info.TypeOf(cc.List[0])
			if !(namedIs(ct, "go/types", "Named") || namedIs(ct, "go/types", "Alias")) {
				continue
			}
			caseVar := info.Implicits[cc]
			kind := "Named"
			if namedIs(ct, "go/types", "Alias") {
				kind = "Alias"
			}
			for _, st := range cc.Body {
				as, ok := st.(*ast.AssignStmt)
				if !ok || len(as.Rhs) != 1 {
					continue
				}
				call, ok := unparen(as.Rhs[0]).(*ast.CallExpr)
				if !ok || len(call.Args) == 0 {
					continue
				}
				n++
				arg := unparen(call.Args[len(call.Args)-1])
				id, isID := arg.(*ast.Ident)
				c.Check(isID && caseVar != nil && info.Uses[id] == caseVar, rule, "Zero/"+kind+"-arm-unwraps-the-requested-type", call.Pos(),
					"the %s arm continues with %s; it must unwrap the requested type itself (the case variable): the underlying type of an instantiated generic's origin still mentions its type parameters", kind, exprString(call))
			}
		}
		return true
	})
	c.Floor(rule, "unwrapping arms", n, 2)
}
