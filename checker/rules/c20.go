package rules

import (
	"go/ast"
	"go/token"
	"go/types"
	"strings"

	"golang.org/x/tools/go/packages"

	"gogenvet/fw"
)

func init() {
	register("C20", Prop{
		NeedSSA: false,
		Run:     runC20,
		Explanation: "R20.1 a cache hit is dominated by the full validation: every return of isDirty that can be false is preceded by the own-hash comparison (HashInvalid excluded) and by the loop comparing every recorded dependency hash, each failing edge returning dirty; Find serves an entry without Prepare only through a false isDirty; " +
			"R20.2 the error of a failed re-list is tested before any cached entry is used; " +
			"R20.3 integers read from the cache file are range-checked on both sides before they size an allocation, bound a loop or slice; " +
			"R20.4 writer and reader agree on the on-disk format (ordered field sequence, separators, which struct field each column feeds); " +
			"R20.5 concurrency discipline: list counters only through sync/atomic, the entry maps only through sync.Map methods, no field of a published *pkgCache is written after Store nor outside the allocating function, configuration fields written only by their setters/constructor",
		NotDecided: "that field values contain no separators; the semantics of the user-supplied hash function; file-system races; determinism of `go list`",
	})
}

func runC20(c *fw.Ctx) {
	r201(c)
	r202(c)
	r203(c)
	r204(c)
	r205(c)
	r206(c)
}

const cachePkg = "packages/cache"

func r201(c *fw.Ctx) {
	const rule = "R20.1"
	fd, p := needDecl(c, rule, cachePkg+":isDirty")
	if fd == nil {
		return
	}
	env := &e6env{info: p.TypesInfo, subst: map[types.Object]string{}, state: stateVars(p.TypesInfo, fd.Body)}
	env.bindParams(fd)
	s := env.evalStmts(fd.Body.List, &sym{kind: sPanic})
	if env.err != "" {
		c.Undecided(rule, "isDirty/shape", fd.Pos(), "cannot normalise isDirty: %s", env.err)
		return
	}
	// walk: every Ret that is not constant-true must have passed the own-hash test and the dependency loop
	nClean := 0
	var walk func(s *sym, own, deps bool)
	walk = func(s *sym, own, deps bool) {
		switch s.kind {
		case sRet:
			if s.b.kind == bConst && s.b.val {
				return
			}
			nClean++
			c.Check(own, rule, sprintf("isDirty/clean-return#%d/own-hash-compared", nClean), fd.Pos(), "isDirty can return false without comparing the package's own fingerprint")
			c.Check(deps, rule, sprintf("isDirty/clean-return#%d/dep-hashes-compared", nClean), fd.Pos(), "isDirty can return false without comparing every recorded dependency fingerprint")
		case sIte:
			// own-hash test: condition true whenever hash==HashInvalid or h(path,true)!=hash, then-branch dirty
			set := map[string]bool{}
			s.b.atoms(set)
			var inv, cmp string
			for a := range set {
				if strings.Contains(a, "HashInvalid") && strings.Contains(a, ".hash") {
					inv = a
				}
				if strings.Contains(a, ", true)") && strings.Contains(a, ".hash") && strings.Contains(a, "==") {
					cmp = a
				}
			}
			isOwn := false
			if inv != "" && cmp != "" && s.a.kind == sRet && s.a.b.kind == bConst && s.a.b.val {
				// atoms are equalities: dirty iff inv==true or cmp==false
				okTT := true
				for _, iv := range []bool{false, true} {
					for _, cv := range []bool{false, true} {
						asg := map[string]bool{inv: iv, cmp: cv}
						for a := range set {
							if a != inv && a != cmp {
								asg[a] = false
							}
						}
						if s.b.eval(asg) != (iv || !cv) {
							okTT = false
						}
					}
				}
				isOwn = okTT
			}
			if isOwn {
				walk(s.c, true, deps)
			} else {
				walk(s.a, own, deps)
				walk(s.c, own, deps)
			}
		case sLoop:
			isDeps := false
			if strings.HasPrefix(s.text, "range ") && strings.HasSuffix(s.text, ".deps") {
				sig := s.a.signature()
				// exactly one atom: h(ELEM.path, false) == ELEM.hash ; equal -> next, different -> dirty
				if strings.Contains(sig, "atoms[(") && strings.Contains(sig, ".path, false) == ELEM(") && strings.Contains(sig, ".hash)]") &&
					strings.HasSuffix(sig, "0=>true 1=>next") {
					isDeps = true
				}
			}
			walk(s.c, own, deps || isDeps)
		case sEffect:
			walk(s.a, own, deps)
		}
	}
	walk(s, false, false)
	if nClean == 0 {
		c.Undecided(rule, "isDirty/shape", fd.Pos(), "isDirty has no return that can be false")
	}
	// Find: a reader is returned without Prepare only under !isDirty
	ffd, fp := needDecl(c, rule, cachePkg+":(*Impl).Find")
	if ffd == nil {
		return
	}
	info := fp.TypesInfo
	// the first if: cond must be `!ok || isDirty(...)`, body contains Prepare
	var gate *ast.IfStmt
	for _, st := range ffd.Body.List {
		if is, ok := st.(*ast.IfStmt); ok && gate == nil {
			gate = is
		}
	}
	okGate := false
	if gate != nil {
		if be, ok := unparen(gate.Cond).(*ast.BinaryExpr); ok && be.Op == token.LOR {
			if call, ok := unparen(be.Y).(*ast.CallExpr); ok && isFunc(callee(info, call), fw.Mod+"/"+cachePkg, "isDirty") {
				if u, ok := unparen(be.X).(*ast.UnaryExpr); ok && u.Op == token.NOT {
					prep := false
					ast.Inspect(gate.Body, func(n ast.Node) bool {
						if cl, ok := n.(*ast.CallExpr); ok && isFunc(callee(info, cl), fw.Mod+"/"+cachePkg, "Impl.Prepare") {
							prep = true
						}
						return true
					})
					okGate = prep
				}
			}
		}
	}
	c.Check(okGate, rule, "Find/gate", ffd.Pos(), "Find must re-list when the entry is missing or dirty (`!ok || isDirty(...)` guarding Prepare)")
	// no Open/return of a reader outside the gate
	outside := false
	for _, st := range ffd.Body.List {
		if st == ast.Stmt(gate) {
			continue
		}
		ast.Inspect(st, func(n ast.Node) bool {
			if cl, ok := n.(*ast.CallExpr); ok && isFunc(callee(info, cl), "os", "Open") {
				outside = true
			}
			return true
		})
	}
	c.Check(!outside, rule, "Find/no-unvalidated-open", ffd.Pos(), "Find opens an export file outside the validated path")
	// isDirty is given the hash function and the entry that was looked up
	if gate != nil {
		ast.Inspect(gate.Cond, func(n ast.Node) bool {
			if cl, ok := n.(*ast.CallExpr); ok && isFunc(callee(info, cl), fw.Mod+"/"+cachePkg, "isDirty") && len(cl.Args) == 4 {
				c.Check(exprString(cl.Args[1]) == "pkgPath" && exprString(cl.Args[2]) == "val" && strings.HasSuffix(exprString(cl.Args[3]), ".h"), rule, "Find/validates-looked-up-entry", cl.Pos(),
					"isDirty must be asked about the looked-up entry of the requested path with the cache's hash function")
			}
			return true
		})
	}
}

func r202(c *fw.Ctx) {
	const rule = "R20.2"
	ffd, p := needDecl(c, rule, cachePkg+":(*Impl).Find")
	if ffd == nil {
		return
	}
	info := p.TypesInfo
	n := 0
	// find blocks containing `err = p.Prepare(...)`
	ast.Inspect(ffd.Body, func(nd ast.Node) bool {
		blk, ok := nd.(*ast.BlockStmt)
		if !ok {
			return true
		}
		for i, st := range blk.List {
			tested := false
			as, ok := st.(*ast.AssignStmt)
			if is, isIf := st.(*ast.IfStmt); isIf && is.Init != nil {
				// if err = p.Prepare(...); err != nil { return }
				if ia, ok2 := is.Init.(*ast.AssignStmt); ok2 {
					as, ok = ia, true
					if exprString(is.Cond) == exprString(ia.Lhs[len(ia.Lhs)-1])+" != nil" && endsInReturn(is.Body) && is.Else == nil {
						tested = true
					}
				}
			}
			if !ok || len(as.Rhs) != 1 {
				continue
			}
			call, ok := as.Rhs[0].(*ast.CallExpr)
			if !ok || !isFunc(callee(info, call), fw.Mod+"/"+cachePkg, "Impl.Prepare") {
				continue
			}
			n++
			errName := exprString(as.Lhs[len(as.Lhs)-1])
			bad := token.NoPos
			for _, nx := range blk.List[i+1:] {
				if is, ok := nx.(*ast.IfStmt); ok {
					cond := exprString(is.Cond)
					if cond == errName+" != nil" && endsInReturn(is.Body) {
						tested = true
						continue
					}
					if strings.Contains(cond, errName+" == nil") {
						// uses inside are guarded; check else branch separately
						if is.Else != nil && usesCacheEntry(info, is.Else) && !tested {
							bad = is.Else.Pos()
						}
						continue
					}
				}
				if !tested && usesCacheEntry(info, nx) && !bad.IsValid() {
					bad = nx.Pos()
				}
			}
			c.Check(!bad.IsValid(), rule, "Find/prepare-error-tested-before-hit", as.Pos(),
				"after a failed re-list (`go list` error) Find still looks the entry up and opens its export file: stale data is served although the fingerprint changed (use at %s)", c.Position(bad))
		}
		return true
	})
	if n == 0 {
		c.Undecided(rule, "Find/shape", ffd.Pos(), "no Prepare call found in Find")
	}
	// Prepare itself: the error of golistExport is tested before the results are stored
	if pfd, pp := needDecl(c, rule, cachePkg+":(*Impl).Prepare"); pfd != nil {
		okp := false
		for i, st := range pfd.Body.List {
			if as, ok := st.(*ast.AssignStmt); ok && len(as.Rhs) == 1 {
				if call, ok := as.Rhs[0].(*ast.CallExpr); ok && isFunc(callee(pp.TypesInfo, call), fw.Mod+"/"+cachePkg, "golistExport") && i+1 < len(pfd.Body.List) {
					if is, ok := pfd.Body.List[i+1].(*ast.IfStmt); ok && exprString(is.Cond) == "err != nil" && endsInReturn(is.Body) {
						okp = true
					}
				}
			}
		}
		c.Check(okp, rule, "Prepare/list-error-tested", pfd.Pos(), "the error of the listing command must be tested before its output is stored")
	}
}

func usesCacheEntry(info *types.Info, n ast.Node) bool {
	found := false
	ast.Inspect(n, func(m ast.Node) bool {
		if call, ok := m.(*ast.CallExpr); ok {
			if isFunc(callee(info, call), "os", "Open") || isFunc(callee(info, call), "sync", "Map.Load") {
				found = true
			}
		}
		return true
	})
	return found
}

func r203(c *fw.Ctx) {
	const rule = "R20.3"
	p := c.Pkg(cachePkg)
	info := p.TypesInfo
	n := 0
	for _, fd := range c.Decls() {
		if c.PkgOfDecl(fd) != p {
			continue
		}
		fname := declName(c, fd)
		ast.Inspect(fd.Body, func(nd ast.Node) bool {
			blk, ok := nd.(*ast.BlockStmt)
			if !ok {
				return true
			}
			for i, st := range blk.List {
				as, ok := st.(*ast.AssignStmt)
				if !ok || len(as.Rhs) != 1 || len(as.Lhs) < 1 {
					continue
				}
				call, ok := as.Rhs[0].(*ast.CallExpr)
				if !ok {
					continue
				}
				fn, ok := callee(info, call).(*types.Func)
				if !ok || fn.Pkg() == nil || fn.Pkg().Path() != "strconv" || !(fn.Name() == "Atoi" || strings.HasPrefix(fn.Name(), "Parse")) {
					continue
				}
				id, ok := as.Lhs[0].(*ast.Ident)
				if !ok {
					continue
				}
				obj := info.Defs[id]
				if obj == nil {
					obj = info.Uses[id]
				}
				n++
				lower, upper := false, false
				firstUse := token.NoPos
				for _, nx := range blk.List[i+1:] {
					if is, ok := nx.(*ast.IfStmt); ok && !firstUse.IsValid() && endsInReturn(is.Body) {
						// disjuncts
						var dis []ast.Expr
						var flat func(e ast.Expr)
						flat = func(e ast.Expr) {
							e = unparen(e)
							if be, ok := e.(*ast.BinaryExpr); ok && be.Op == token.LOR {
								flat(be.X)
								flat(be.Y)
								return
							}
							dis = append(dis, e)
						}
						flat(is.Cond)
						for _, d := range dis {
							be, ok := d.(*ast.BinaryExpr)
							if !ok {
								continue
							}
							lhsHas, rhsHas := mentionsObj(info, be.X, obj), mentionsObj(info, be.Y, obj)
							switch be.Op {
							case token.LSS, token.LEQ:
								if lhsHas && !rhsHas {
									if _, isConst := constInt(info, be.Y); isConst {
										lower = true // n < 0
									}
								}
								if rhsHas && !lhsHas {
									upper = true // len(lines) < n+1
								}
							case token.GTR, token.GEQ:
								if lhsHas && !rhsHas {
									upper = true // n > len(...)
								}
								if rhsHas && !lhsHas {
									if _, isConst := constInt(info, be.X); isConst {
										lower = true // 0 > n
									}
								}
							}
						}
						continue
					}
					if !firstUse.IsValid() && sizesOrBounds(info, nx, obj) {
						firstUse = nx.Pos()
					}
				}
				if !firstUse.IsValid() {
					continue // the integer does not size or bound anything
				}
				c.Check(upper, rule, fname+"/"+id.Name+"/upper-bound", as.Pos(), "integer %s read from the cache file is used to size/bound without an upper check", id.Name)
				c.Check(lower, rule, fname+"/"+id.Name+"/lower-bound", as.Pos(), "integer %s read from the cache file is used in make/loop/slice without a lower bound: a negative count panics (makeslice: cap out of range) instead of reporting a malformed file", id.Name)
			}
			return true
		})
	}
	c.Floor(rule, "integers parsed from files", n, 1)
}

func mentionsObj(info *types.Info, e ast.Node, obj types.Object) bool {
	found := false
	ast.Inspect(e, func(n ast.Node) bool {
		if id, ok := n.(*ast.Ident); ok && info.Uses[id] == obj {
			found = true
		}
		return true
	})
	return found
}

// sizesOrBounds: stmt uses obj in make(...), a for condition, or a slice expression.
func sizesOrBounds(info *types.Info, st ast.Stmt, obj types.Object) bool {
	found := false
	ast.Inspect(st, func(n ast.Node) bool {
		switch x := n.(type) {
		case *ast.CallExpr:
			if id, ok := unparen(x.Fun).(*ast.Ident); ok && id.Name == "make" {
				for _, a := range x.Args[1:] {
					if mentionsObj(info, a, obj) {
						found = true
					}
				}
			}
		case *ast.ForStmt:
			if x.Cond != nil && mentionsObj(info, x.Cond, obj) {
				found = true
			}
		case *ast.SliceExpr:
			for _, e := range []ast.Expr{x.Low, x.High, x.Max} {
				if e != nil && mentionsObj(info, e, obj) {
					found = true
				}
			}
		}
		return true
	})
	return found
}

// ---------------------------------------------------------------------------
// R20.4 writer/reader format agreement.

type fmtTok struct{ kind, text string } // kind: "sep" (byte/literal) or "field"

func r204(c *fw.Ctx) {
	const rule = "R20.4"
	sfd, p := needDecl(c, rule, cachePkg+":(*Impl).Save")
	lfd, _ := needDecl(c, rule, cachePkg+":(*Impl).loadCachePkgs")
	if sfd == nil || lfd == nil {
		return
	}
	info := p.TypesInfo
	// ---- writer: sequence of Write* calls inside the Range callback, with one nested loop
	var head, dep []fmtTok
	undec := ""
	var scan func(list []ast.Stmt, dst *[]fmtTok, depth int)
	scan = func(list []ast.Stmt, dst *[]fmtTok, depth int) {
		for _, st := range list {
			switch s := st.(type) {
			case *ast.ExprStmt:
				call, ok := s.X.(*ast.CallExpr)
				if !ok {
					continue
				}
				fn, ok := callee(info, call).(*types.Func)
				if !ok || fn.Pkg() == nil || fn.Pkg().Path() != "bytes" {
					continue
				}
				switch fn.Name() {
				case "WriteByte":
					if v, ok := constInt(info, call.Args[0]); ok {
						*dst = append(*dst, fmtTok{"sep", string(rune(v))})
					} else {
						undec = "non-constant separator"
					}
				case "WriteString":
					a := unparen(call.Args[0])
					if sv, ok := constString(info, a); ok {
						*dst = append(*dst, fmtTok{"sep", sv})
						continue
					}
					*dst = append(*dst, fmtTok{"field", writerField(info, a)})
				default:
					undec = "writer uses " + fn.Name()
				}
			case *ast.RangeStmt:
				if depth > 0 {
					undec = "nested loops"
					continue
				}
				if !strings.HasSuffix(exprString(s.X), ".deps") {
					undec = "loop over " + exprString(s.X)
				}
				scan(s.Body.List, &dep, depth+1)
			case *ast.AssignStmt, *ast.ReturnStmt:
			default:
				undec = sprintf("statement %T in the writer", st)
			}
		}
	}
	var cb *ast.FuncLit
	inspectFunc(sfd, func(n ast.Node) bool {
		if call, ok := n.(*ast.CallExpr); ok && isFunc(callee(info, call), "sync", "Map.Range") && len(call.Args) == 1 {
			cb, _ = call.Args[0].(*ast.FuncLit)
		}
		return true
	})
	if cb == nil {
		c.Undecided(rule, "Save/shape", sfd.Pos(), "writer does not iterate the entry map with Range(func)")
		return
	}
	scan(cb.Body.List, &head, 0)
	if undec != "" {
		c.Undecided(rule, "Save/shape", sfd.Pos(), "writer not understood: %s", undec)
		return
	}
	// ---- reader
	rd := readReader(c, info, lfd)
	if rd.err != "" {
		c.Undecided(rule, "loadCachePkgs/shape", lfd.Pos(), "reader not understood: %s", rd.err)
		return
	}
	// header: fields separated by rd.sep, terminated by "\n"
	var wf []string
	okSeps := true
	for i, t := range head {
		if i%2 == 0 {
			if t.kind != "field" {
				okSeps = false
			}
			wf = append(wf, t.text)
		} else {
			want := rd.sep
			if i == len(head)-1 {
				want = "\n"
			}
			if t.kind != "sep" || t.text != want {
				okSeps = false
			}
		}
	}
	c.Check(okSeps && len(head)%2 == 0, rule, "header/separators", sfd.Pos(), "the header line must be fields separated by %q and terminated by a newline; writer emits %v", rd.sep, head)
	c.Check(len(wf) == rd.nfields, rule, "header/field-count", lfd.Pos(), "writer emits %d header fields %v, reader splits into %d", len(wf), wf, rd.nfields)
	for i, f := range wf {
		got := rd.fieldAt[i]
		c.Check(got == f, rule, sprintf("header/field%d", i), lfd.Pos(), "header column %d is written from %q and read into %q", i, f, got)
	}
	// dependency lines: sep path sep hash \n
	wantDep := []fmtTok{{"sep", rd.sep}, {"field", "dep.path"}, {"sep", rd.sep}, {"field", "dep.hash"}, {"sep", "\n"}}
	okDep := len(dep) == len(wantDep)
	if okDep {
		for i := range dep {
			if dep[i] != wantDep[i] {
				okDep = false
			}
		}
	}
	c.Check(okDep, rule, "dep/writer-sequence", sfd.Pos(), "a dependency line must be <sep>path<sep>hash<newline>; writer emits %v", dep)
	c.Check(rd.depPrefix == rd.sep && rd.depSplit == rd.sep, rule, "dep/reader-separators", lfd.Pos(), "reader expects prefix %q and separator %q on dependency lines, header separator is %q", rd.depPrefix, rd.depSplit, rd.sep)
	c.Check(rd.depFirst == "path" && rd.depSecond == "hash", rule, "dep/reader-fields", lfd.Pos(), "reader stores the part before the separator into %q and the rest into %q; writer emits path then hash", rd.depFirst, rd.depSecond)
	c.Check(rd.countDrivesLoop, rule, "dep/count-drives-reader", lfd.Pos(), "the dependency count column must bound the reader's dependency loop and the advance to the next entry")
}

func writerField(info *types.Info, a ast.Expr) string {
	switch x := a.(type) {
	case *ast.SelectorExpr:
		return exprString(x) // pkg.expfile, pkg.hash, dep.path, dep.hash
	case *ast.TypeAssertExpr:
		return "key"
	case *ast.CallExpr:
		if isFunc(callee(info, x), "strconv", "Itoa") && len(x.Args) == 1 {
			if inner, ok := unparen(x.Args[0]).(*ast.CallExpr); ok {
				if id, ok := unparen(inner.Fun).(*ast.Ident); ok && id.Name == "len" && strings.HasSuffix(exprString(inner.Args[0]), ".deps") {
					return "count"
				}
			}
		}
	}
	return "?" + exprString(a)
}

type readerFmt struct {
	sep             string
	nfields         int
	fieldAt         map[int]string
	depPrefix       string
	depSplit        string
	depFirst        string
	depSecond       string
	countDrivesLoop bool
	err             string
}

func readReader(c *fw.Ctx, info *types.Info, fd *ast.FuncDecl) readerFmt {
	r := readerFmt{fieldAt: map[int]string{}}
	var partsObj, countObj types.Object
	inspectFunc(fd, func(n ast.Node) bool {
		switch x := n.(type) {
		case *ast.AssignStmt:
			if len(x.Rhs) != 1 {
				return true
			}
			if call, ok := x.Rhs[0].(*ast.CallExpr); ok {
				fn, _ := callee(info, call).(*types.Func)
				if fn != nil && fn.Pkg() != nil && fn.Pkg().Path() == "strings" && fn.Name() == "SplitN" && len(call.Args) == 3 {
					r.sep, _ = constString(info, call.Args[1])
					if k, ok := constInt(info, call.Args[2]); ok {
						r.nfields = int(k)
					}
					if id, ok := x.Lhs[0].(*ast.Ident); ok {
						partsObj = info.Defs[id]
					}
				}
				if fn != nil && fn.Pkg() != nil && fn.Pkg().Path() == "strconv" && fn.Name() == "Atoi" {
					if ix, ok := unparen(call.Args[0]).(*ast.IndexExpr); ok {
						if k, ok := constInt(info, ix.Index); ok {
							r.fieldAt[int(k)] = "count"
						}
					}
					if id, ok := x.Lhs[0].(*ast.Ident); ok {
						countObj = info.Defs[id]
					}
				}
				if fn != nil && fn.Pkg() != nil && fn.Pkg().Path() == "strings" && fn.Name() == "IndexByte" && len(call.Args) == 2 {
					if k, ok := constInt(info, call.Args[1]); ok {
						r.depSplit = string(rune(k))
					}
				}
			}
		case *ast.CallExpr:
			fn, _ := callee(info, x).(*types.Func)
			if fn != nil && fn.Pkg() != nil && fn.Pkg().Path() == "strings" && fn.Name() == "HasPrefix" && len(x.Args) == 2 {
				r.depPrefix, _ = constString(info, x.Args[1])
			}
			if isFunc(fn, "sync", "Map.Store") && len(x.Args) == 2 {
				if ix, ok := unparen(x.Args[0]).(*ast.IndexExpr); ok {
					if k, ok := constInt(info, ix.Index); ok {
						r.fieldAt[int(k)] = "key"
					}
				}
			}
		case *ast.CompositeLit:
			if namedIs(info.TypeOf(x), fw.Mod+"/"+cachePkg, "pkgCache") {
				for fld, e := range structFields(info, x) {
					if ix, ok := unparen(e).(*ast.IndexExpr); ok {
						if k, ok := constInt(info, ix.Index); ok {
							r.fieldAt[int(k)] = "pkg." + fld
						}
					}
				}
			}
			if namedIs(info.TypeOf(x), fw.Mod+"/"+cachePkg, "depPkg") {
				for fld, e := range structFields(info, x) {
					if se, ok := unparen(e).(*ast.SliceExpr); ok {
						if se.Low == nil && se.High != nil {
							r.depFirst = fld // line[:pos]
						} else if se.Low != nil && se.High == nil && strings.Contains(exprString(se.Low), "+ 1") {
							r.depSecond = fld // line[pos+1:]
						}
					}
				}
			}
		}
		return true
	})
	if partsObj == nil || r.sep == "" {
		r.err = "no SplitN of the header line"
		return r
	}
	// the count bounds the loop and the advance
	loopOK, advOK := false, false
	inspectFunc(fd, func(n ast.Node) bool {
		switch x := n.(type) {
		case *ast.ForStmt:
			if x.Cond != nil && mentionsObj(info, x.Cond, countObj) {
				if be, ok := x.Cond.(*ast.BinaryExpr); ok && be.Op == token.LEQ {
					if as, ok := x.Init.(*ast.AssignStmt); ok {
						if k, ok := constInt(info, as.Rhs[0]); ok && k == 1 {
							loopOK = true // for i := 1; i <= n
						}
					}
				}
			}
		case *ast.AssignStmt:
			if len(x.Rhs) == 1 {
				if se, ok := x.Rhs[0].(*ast.SliceExpr); ok && se.Low != nil && se.High == nil && mentionsObj(info, se.Low, countObj) && strings.Contains(exprString(se.Low), "+ 1") {
					advOK = true // lines = lines[n+1:]
				}
			}
		}
		return true
	})
	r.countDrivesLoop = loopOK && advOK && countObj != nil
	return r
}

// ---------------------------------------------------------------------------
// R20.5 concurrency discipline.

func r205(c *fw.Ctx) {
	const rule = "R20.5"
	pkgs := []*packages.Package{c.Pkg(cachePkg), c.Pkg("packages")}
	nAtomic, nMap := 0, 0
	for _, p := range pkgs {
		info := p.TypesInfo
		// objects: nlist (field or package var), sync.Map typed fields
		var counters, maps, pub []types.Object
		if v := p.Types.Scope().Lookup("nlist"); v != nil {
			counters = append(counters, v)
		}
		for _, name := range p.Types.Scope().Names() {
			tn, ok := p.Types.Scope().Lookup(name).(*types.TypeName)
			if !ok {
				continue
			}
			st, ok := tn.Type().Underlying().(*types.Struct)
			if !ok {
				continue
			}
			for i := 0; i < st.NumFields(); i++ {
				f := st.Field(i)
				if f.Name() == "nlist" {
					counters = append(counters, f)
				}
				if namedIs(f.Type(), "sync", "Map") {
					maps = append(maps, f)
				}
				if tn.Name() == "pkgCache" {
					pub = append(pub, f)
				}
			}
		}
		rel := strings.TrimPrefix(p.PkgPath, fw.Mod+"/")
		for _, obj := range counters {
			for _, id := range usesOf(c, obj) {
				fd := enclosingFunc(c, id.Pos())
				if fd == nil {
					continue
				}
				nAtomic++
				okUse := false
				inspectFunc(fd, func(n ast.Node) bool {
					call, ok := n.(*ast.CallExpr)
					if !ok {
						return true
					}
					fn, ok := callee(info, call).(*types.Func)
					if !ok || fn.Pkg() == nil || fn.Pkg().Path() != "sync/atomic" {
						return true
					}
					for _, a := range call.Args {
						if u, ok := unparen(a).(*ast.UnaryExpr); ok && u.Op == token.AND && u.X.Pos() <= id.Pos() && id.End() <= u.X.End() {
							okUse = true
						}
					}
					return true
				})
				c.Check(okUse, rule, rel+"/"+declName(c, fd)+"/nlist-atomic", id.Pos(), "the list counter is accessed without sync/atomic (data race between concurrent lookups)")
			}
		}
		for _, obj := range maps {
			for _, id := range usesOf(c, obj) {
				fd := enclosingFunc(c, id.Pos())
				if fd == nil {
					continue
				}
				nMap++
				okUse := false
				inspectFunc(fd, func(n ast.Node) bool {
					if call, ok := n.(*ast.CallExpr); ok {
						if sel, ok := unparen(call.Fun).(*ast.SelectorExpr); ok {
							if inner, ok := unparen(sel.X).(*ast.SelectorExpr); ok && inner.Sel == id {
								if fn, ok := callee(info, call).(*types.Func); ok && fn.Pkg() != nil && fn.Pkg().Path() == "sync" {
									okUse = true
								}
							}
						}
					}
					return true
				})
				c.Check(okUse, rule, rel+"/"+declName(c, fd)+"/"+obj.Name()+"-through-sync.Map", id.Pos(), "the shared map %s is used other than through sync.Map methods", obj.Name())
			}
		}
		// published entries are immutable: field writes only before Store in the allocating function
		for _, fd := range c.Decls() {
			if c.PkgOfDecl(fd) != p {
				continue
			}
			fname := declName(c, fd)
			var storePos token.Pos
			allocates := false
			inspectFunc(fd, func(n ast.Node) bool {
				switch x := n.(type) {
				case *ast.CallExpr:
					if isFunc(callee(info, x), "sync", "Map.Store") && !storePos.IsValid() {
						storePos = x.Pos()
					}
				case *ast.CompositeLit:
					if namedIs(info.TypeOf(x), p.PkgPath, "pkgCache") {
						allocates = true
					}
				}
				return true
			})
			inspectFunc(fd, func(n ast.Node) bool {
				var lhs []ast.Expr
				switch x := n.(type) {
				case *ast.AssignStmt:
					lhs = x.Lhs
				case *ast.IncDecStmt:
					lhs = []ast.Expr{x.X}
				}
				for _, l := range lhs {
					sel, ok := unparen(l).(*ast.SelectorExpr)
					if !ok {
						continue
					}
					isPub := false
					for _, f := range pub {
						if info.Uses[sel.Sel] == f {
							isPub = true
						}
					}
					if !isPub {
						continue
					}
					okW := allocates && (!storePos.IsValid() || l.Pos() < storePos)
					// inside a loop, the Store of the same iteration follows the writes textually
					c.Check(okW, rule, rel+"/"+fname+"/write-"+sel.Sel.Name+"-before-publish", l.Pos(),
						"field %s of a cache entry is written after the entry was published with Store, or outside the function that allocated it (concurrent readers would race)", sel.Sel.Name)
				}
				return true
			})
		}
	}
	// configuration fields written only by setters/constructors
	for _, spec := range []struct {
		rel, typ, field string
		writers         []string
	}{
		{cachePkg, "Impl", "tags", []string{"SetTags"}},
		{cachePkg, "Impl", "h", []string{"New"}},
		{"packages", "Importer", "cache", []string{"SetCache"}},
		{"packages", "Importer", "tags", []string{"SetTags"}},
	} {
		p := c.Pkg(spec.rel)
		tn, _ := p.Types.Scope().Lookup(spec.typ).(*types.TypeName)
		if tn == nil {
			c.Undecided(rule, spec.rel+"/"+spec.typ, token.NoPos, "type not found")
			continue
		}
		st := tn.Type().Underlying().(*types.Struct)
		var f *types.Var
		for i := 0; i < st.NumFields(); i++ {
			if st.Field(i).Name() == spec.field {
				f = st.Field(i)
			}
		}
		if f == nil {
			c.Undecided(rule, spec.rel+"/"+spec.typ+"."+spec.field, token.NoPos, "field not found")
			continue
		}
		for _, fd := range c.Decls() {
			if c.PkgOfDecl(fd) != p {
				continue
			}
			inspectFunc(fd, func(n ast.Node) bool {
				as, ok := n.(*ast.AssignStmt)
				if !ok {
					return true
				}
				for _, l := range as.Lhs {
					if sel, ok := unparen(l).(*ast.SelectorExpr); ok && p.TypesInfo.Uses[sel.Sel] == f {
						okW := false
						for _, w := range spec.writers {
							if fd.Name.Name == w {
								okW = true
							}
						}
						c.Check(okW, rule, spec.rel+"/"+declName(c, fd)+"/writes-"+spec.field, l.Pos(), "configuration field %s.%s is written outside its setter (concurrent lookups read it without synchronisation)", spec.typ, spec.field)
					}
				}
				return true
			})
		}
	}
	c.Floor(rule, "atomic counter uses", nAtomic, 4)
	c.Floor(rule, "sync.Map uses", nMap, 5)
}

// R20.6: a re-list replaces the record of every package it lists. In Prepare, every iteration over the
// listing stores a record for that package (no iteration is skipped before the Store): a listing can be
// asked for because a dependency's fingerprint changed or the export file vanished while the package's own
// fingerprint is unchanged, and the old record would keep the stale dependency fingerprints / file.
//
// R20.7: records do not share storage. The dependency slice put into a record is allocated inside the loop
// iteration that builds the record (make / literal), in Prepare and in loadCachePkgs; a slice cut from
// storage that lives across iterations lets a later record overwrite an earlier record's dependencies.
func r206(c *fw.Ctx) {
	for _, fname := range []string{"packages/cache:(*Impl).Prepare", "packages/cache:(*Impl).loadCachePkgs"} {
		fd, p := needDecl(c, "R20.7", fname)
		if fd == nil {
			continue
		}
		info := p.TypesInfo
		short := strings.TrimPrefix(fname, "packages/cache:(*Impl).")
		var loops []ast.Stmt
		ast.Inspect(fd.Body, func(m ast.Node) bool {
			var body *ast.BlockStmt
			switch l := m.(type) {
			case *ast.RangeStmt:
				body = l.Body
			case *ast.ForStmt:
				body = l.Body
			default:
				return true
			}
			hasStore := false
			for _, st := range body.List {
				ast.Inspect(st, func(k ast.Node) bool {
					switch x := k.(type) {
					case *ast.ForStmt, *ast.RangeStmt, *ast.FuncLit:
						return false
					case *ast.CallExpr:
						if isFunc(callee(info, x), "sync", "Map.Store") {
							hasStore = true
						}
					}
					return true
				})
			}
			if hasStore {
				loops = append(loops, m.(ast.Stmt))
			}
			return true
		})
		if len(loops) != 1 {
			c.Undecided("R20.7", short+"/record-loop", fd.Pos(), "expected one loop that stores records, found %d", len(loops))
			continue
		}
		var body *ast.BlockStmt
		switch l := loops[0].(type) {
		case *ast.RangeStmt:
			body = l.Body
		case *ast.ForStmt:
			body = l.Body
		}
		// R20.6 (Prepare only): the Store is a top-level statement of the body with no continue/break before it
		if short == "Prepare" {
			reached, skipped := false, ""
			for _, st := range body.List {
				if es, ok := st.(*ast.ExprStmt); ok {
					if call, ok := es.X.(*ast.CallExpr); ok && isFunc(callee(info, call), "sync", "Map.Store") {
						reached = true
						break
					}
				}
				ast.Inspect(st, func(k ast.Node) bool {
					switch x := k.(type) {
					case *ast.ForStmt, *ast.RangeStmt, *ast.FuncLit:
						return false
					case *ast.BranchStmt:
						if x.Tok == token.CONTINUE || x.Tok == token.BREAK || x.Tok == token.GOTO {
							skipped = x.Tok.String() + " at " + c.Position(x.Pos())
						}
					case *ast.ReturnStmt:
						skipped = "return at " + c.Position(x.Pos())
					}
					return true
				})
				if skipped != "" {
					break
				}
			}
			c.Check(reached && skipped == "", "R20.6", "Prepare/stores-a-record-for-every-listed-package", body.Pos(),
				"an iteration over the listing can leave (%s) before the package's record is replaced: the stale record (old export file, old dependency fingerprints) keeps being served and keeps forcing re-lists", skipped)
		}
		// R20.7: the deps value of the record literal is allocated in this iteration
		var lit *ast.CompositeLit
		ast.Inspect(body, func(k ast.Node) bool {
			if l, ok := k.(*ast.CompositeLit); ok && namedIs(info.TypeOf(l), fw.Mod+"/packages/cache", "pkgCache") {
				lit = l
			}
			return true
		})
		if lit == nil {
			c.Undecided("R20.7", short+"/record-literal", body.Pos(), "no pkgCache literal in the record loop")
			continue
		}
		depsExpr := structFields(info, lit)["deps"]
		fresh, why := false, "the record has no deps value"
		if depsExpr != nil {
			e := unparen(depsExpr)
			if id, ok := e.(*ast.Ident); ok {
				o := info.Uses[id]
				why = "deps comes from " + id.Name + ", which is not defined in this iteration"
				ast.Inspect(body, func(k ast.Node) bool {
					if as, ok := k.(*ast.AssignStmt); ok && as.Tok == token.DEFINE && len(as.Lhs) == len(as.Rhs) {
						for i, l := range as.Lhs {
							if lid, ok := l.(*ast.Ident); ok && info.Defs[lid] == o {
								e = unparen(as.Rhs[i])
								why = ""
							}
						}
					}
					return true
				})
			}
			if why == "" || depsExpr == e {
				switch x := e.(type) {
				case *ast.CallExpr:
					if fid, ok := unparen(x.Fun).(*ast.Ident); ok && fid.Name == "make" {
						fresh = true
					} else {
						why = "deps is the result of " + exprString(x.Fun)
					}
				case *ast.CompositeLit:
					fresh = true
				case *ast.SliceExpr:
					why = "deps is cut from " + exprString(x.X) + ", storage that outlives the iteration"
				default:
					if tv, ok := info.Types[e]; ok && tv.IsNil() {
						fresh = true
					} else {
						why = "deps is " + exprString(e)
					}
				}
			}
		}
		c.Check(fresh, "R20.7", short+"/record-deps-freshly-allocated", lit.Pos(),
			"every record must own its dependency list (allocated in the iteration that builds it); %s: a later record overwrites an earlier record's dependencies, so a changed dependency goes unnoticed and Save no longer reproduces what was loaded", why)
	}
}
