package rules

import (
	"go/ast"
	"go/constant"
	"go/token"
	"go/types"
	"sort"
	"strings"

	"golang.org/x/tools/go/packages"

	"gogenvet/fw"
)

// R1.4: operator operand classes transcribe the spec.

type constraintInfo struct {
	terms   map[types.BasicKind]bool // tilde terms over basic kinds
	noTilde []string                 // terms without ~ (violations unless big types)
	big     []string                 // Config fields appended when configured
	special string                   // "comparable" / "any" (universe constraints)
	pos     token.Pos
	err     string
}

// contractName resolves a contract variable (e.g. `integer`) to the string its String()
// method returns, which is what makeConstraint switches on.
func contractName(c *fw.Ctx, p *packages.Package, obj types.Object) (string, bool) {
	v, ok := obj.(*types.Var)
	if !ok {
		return "", false
	}
	init, _ := pkgVarInit(p, v.Name())
	lit := asLit(init)
	if lit == nil {
		return "", false
	}
	info := p.TypesInfo
	f := structFields(info, lit)
	if e, ok := f["desc"]; ok {
		return constString(info, e)
	}
	// type with a String method returning a constant
	t := info.TypeOf(lit)
	if t == nil {
		return "", false
	}
	ms := types.NewMethodSet(types.NewPointer(t))
	sel := ms.Lookup(p.Types, "String")
	if sel == nil {
		return "", false
	}
	fd := c.DeclOf(sel.Obj().(*types.Func))
	if fd == nil || fd.Body == nil || len(fd.Body.List) != 1 {
		return "", false
	}
	ret, ok := fd.Body.List[0].(*ast.ReturnStmt)
	if !ok || len(ret.Results) != 1 {
		return "", false
	}
	return constString(info, ret.Results[0])
}

// termOf resolves an identifier like tildeInt to (tilde, kind).
func termOf(p *packages.Package, e ast.Expr) (tilde bool, kind types.BasicKind, ok bool) {
	info := p.TypesInfo
	e = unparen(e)
	var call *ast.CallExpr
	if id, isId := e.(*ast.Ident); isId {
		v, _ := info.Uses[id].(*types.Var)
		if v == nil {
			return
		}
		init, _ := pkgVarInit(p, v.Name())
		call, _ = unparen(init).(*ast.CallExpr)
	} else {
		call, _ = e.(*ast.CallExpr)
	}
	if call == nil || len(call.Args) != 2 || !isFunc(callee(info, call), "go/types", "NewTerm") {
		return
	}
	tv := constOf(info, call.Args[0])
	if tv == nil || tv.Kind() != constant.Bool {
		return
	}
	ix, isIx := unparen(call.Args[1]).(*ast.IndexExpr)
	if !isIx {
		return
	}
	if s, isSel := unparen(ix.X).(*ast.SelectorExpr); !isSel || s.Sel.Name != "Typ" {
		return
	}
	k, isK := constInt(info, ix.Index)
	if !isK {
		return
	}
	return constant.BoolVal(tv), types.BasicKind(k), true
}

func (ci *constraintInfo) addTermList(p *packages.Package, lit *ast.CompositeLit) {
	for _, el := range lit.Elts {
		tilde, kind, ok := termOf(p, el)
		if !ok {
			ci.err = "term " + exprString(el) + " not understood"
			return
		}
		if !tilde {
			ci.noTilde = append(ci.noTilde, types.Typ[kind].Name())
		}
		ci.terms[kind] = true
	}
}

// newConstraintArg: e is newConstraint(<expr>) -> <expr>
func newConstraintArg(p *packages.Package, e ast.Expr) ast.Expr {
	call, ok := unparen(e).(*ast.CallExpr)
	if !ok || len(call.Args) != 1 || !isFunc(callee(p.TypesInfo, call), fw.Mod, "newConstraint") {
		return nil
	}
	return call.Args[0]
}

func universeLookup(p *packages.Package, e ast.Expr) string {
	// types.Universe.Lookup("x").Type()
	call, ok := unparen(e).(*ast.CallExpr)
	if !ok {
		return ""
	}
	sel, ok := unparen(call.Fun).(*ast.SelectorExpr)
	if !ok || sel.Sel.Name != "Type" {
		return ""
	}
	inner, ok := unparen(sel.X).(*ast.CallExpr)
	if !ok || len(inner.Args) != 1 {
		return ""
	}
	isel, ok := unparen(inner.Fun).(*ast.SelectorExpr)
	if !ok || isel.Sel.Name != "Lookup" || exprString(isel.X) != "types.Universe" {
		return ""
	}
	s, _ := constString(p.TypesInfo, inner.Args[0])
	return s
}

// readConstraints extracts, per name, what makeConstraint builds.
func readConstraints(c *fw.Ctx, rule string) map[string]*constraintInfo {
	fd, p := needDecl(c, rule, "makeConstraint")
	if fd == nil {
		return nil
	}
	info := p.TypesInfo
	out := map[string]*constraintInfo{}
	var sw *ast.SwitchStmt
	for _, st := range fd.Body.List {
		if s, ok := st.(*ast.SwitchStmt); ok {
			sw = s
		}
	}
	if sw == nil {
		c.Undecided(rule, "makeConstraint/shape", fd.Pos(), "no switch over the constraint name")
		return nil
	}
	for _, cl := range sw.Body.List {
		cc := cl.(*ast.CaseClause)
		ci := &constraintInfo{terms: map[types.BasicKind]bool{}, pos: cc.Pos()}
		var termsVar types.Object
		for _, st := range cc.Body {
			switch s := st.(type) {
			case *ast.AssignStmt:
				if len(s.Lhs) == 1 && len(s.Rhs) == 1 && s.Tok == token.DEFINE {
					if lit := asLit(s.Rhs[0]); lit != nil {
						termsVar = info.Defs[s.Lhs[0].(*ast.Ident)]
						ci.addTermList(p, lit)
						continue
					}
				}
				ci.err = "unrecognised assignment"
			case *ast.IfStmt:
				// if conf.F != nil { terms = append(terms, types.NewTerm(false, conf.F)) }
				be, ok := unparen(s.Cond).(*ast.BinaryExpr)
				fld := ""
				if ok && be.Op == token.NEQ {
					if sel, ok := unparen(be.X).(*ast.SelectorExpr); ok {
						fld = sel.Sel.Name
					}
				}
				okBody := false
				if fld != "" && len(s.Body.List) == 1 && s.Else == nil {
					if as, ok := s.Body.List[0].(*ast.AssignStmt); ok && len(as.Rhs) == 1 {
						if call, ok := unparen(as.Rhs[0]).(*ast.CallExpr); ok && len(call.Args) == 2 {
							if id, ok := unparen(call.Fun).(*ast.Ident); ok && id.Name == "append" {
								if nt, ok := unparen(call.Args[1]).(*ast.CallExpr); ok && len(nt.Args) == 2 && isFunc(callee(info, nt), "go/types", "NewTerm") {
									if sel, ok := unparen(nt.Args[1]).(*ast.SelectorExpr); ok && sel.Sel.Name == fld {
										okBody = true
									}
								}
							}
						}
					}
				}
				if okBody {
					ci.big = append(ci.big, fld)
				} else {
					ci.err = "unrecognised conditional term"
				}
			case *ast.ReturnStmt:
				if len(s.Results) != 1 {
					ci.err = "unexpected return"
					continue
				}
				r := unparen(s.Results[0])
				if arg := newConstraintArg(p, r); arg != nil {
					if id, ok := unparen(arg).(*ast.Ident); !ok || info.Uses[id] != termsVar {
						ci.err = "newConstraint argument is not the term list"
					}
					continue
				}
				if id, ok := r.(*ast.Ident); ok {
					if v, ok := info.Uses[id].(*types.Var); ok {
						init, _ := pkgVarInit(p, v.Name())
						if arg := newConstraintArg(p, init); arg != nil {
							if lit := asLit(arg); lit != nil {
								ci.addTermList(p, lit)
								continue
							}
						}
						if u := universeLookup(p, init); u != "" {
							ci.special = u
							continue
						}
					}
				}
				ci.err = "unrecognised return " + exprString(r)
			default:
				ci.err = "unrecognised statement"
			}
		}
		for _, e := range cc.List {
			if name, ok := constString(info, e); ok {
				out[name] = ci
			}
		}
	}
	return out
}

func kindSet(flags types.BasicInfo) map[types.BasicKind]bool {
	r := map[types.BasicKind]bool{}
	for k := types.BasicKind(1); k < types.UntypedBool; k++ {
		if k == types.UnsafePointer {
			continue
		}
		if types.Typ[k].Info()&flags != 0 {
			r[k] = true
		}
	}
	return r
}

func kindNames(m map[types.BasicKind]bool) string {
	var ks []int
	for k := range m {
		ks = append(ks, int(k))
	}
	sort.Ints(ks)
	var s []string
	for _, k := range ks {
		s = append(s, types.Typ[k].Name())
	}
	return strings.Join(s, " ")
}

func sameKinds(a, b map[types.BasicKind]bool) bool {
	if len(a) != len(b) {
		return false
	}
	for k := range a {
		if !b[k] {
			return false
		}
	}
	return true
}

func r14(c *fw.Ctx) {
	const rule = "R1.4"
	p := c.Pkg("")
	ot := readOpTables(c, rule)
	cons := readConstraints(c, rule)
	if ot == nil || cons == nil {
		return
	}
	// Spec: "Arithmetic operators", "Comparison operators", "Logical operators".
	type class struct {
		flags   types.BasicInfo
		big     []string // declared big-number extension allowed for this class
		special string
	}
	allBig := []string{"UntypedBigInt", "UntypedBigFloat", "UntypedBigRat"}
	nominal := map[string]class{
		"bool":       {flags: types.IsBoolean},
		"string":     {flags: types.IsString},
		"ninteger":   {flags: types.IsInteger},
		"integer":    {flags: types.IsInteger, big: []string{"UntypedBigInt"}},
		"number":     {flags: types.IsInteger | types.IsFloat | types.IsComplex, big: allBig},
		"orderable":  {flags: types.IsInteger | types.IsFloat | types.IsString, big: allBig},
		"norderable": {flags: types.IsInteger | types.IsFloat | types.IsString},
		"addable":    {flags: types.IsInteger | types.IsFloat | types.IsComplex | types.IsString, big: allBig},
		"comparable": {special: "comparable"},
		"any":        {special: "any"},
	}
	n := 0
	for _, name := range sortedKeys(cons) {
		ci := cons[name]
		key := "contract/" + name
		if ci.err != "" {
			c.Undecided(rule, key, ci.pos, "constraint %q not understood: %s", name, ci.err)
			continue
		}
		want, ok := nominal[name]
		if !ok {
			c.Undecided(rule, key, ci.pos, "constraint name %q has no spec class in the authored table", name)
			continue
		}
		n++
		if want.special != "" {
			c.Check(ci.special == want.special && len(ci.terms) == 0, rule, key+"/terms", ci.pos, "constraint %q must be the universe's %q", name, want.special)
			continue
		}
		wk := kindSet(want.flags)
		c.Check(sameKinds(ci.terms, wk), rule, key+"/terms", ci.pos,
			"constraint %q admits {%s}; the spec class of the operators using it is {%s}", name, kindNames(ci.terms), kindNames(wk))
		c.Check(len(ci.noTilde) == 0, rule, key+"/approximation", ci.pos, "terms without ~ exclude named types: %v", ci.noTilde)
		bigOK := true
		for _, b := range ci.big {
			found := false
			for _, w := range want.big {
				if w == b {
					found = true
				}
			}
			if !found {
				bigOK = false
			}
		}
		c.Check(bigOK, rule, key+"/big", ci.pos, "big-number extension %v exceeds the declared one %v", ci.big, want.big)
	}
	// per operator: the contract it names is the class the spec requires
	need := map[string][]string{
		"Add": {"addable"}, "Sub": {"number"}, "Mul": {"number"}, "Quo": {"number"},
		"Rem": {"integer"}, "Or": {"integer"}, "Xor": {"integer"}, "And": {"integer"}, "AndNot": {"integer"},
		"Lsh": {"integer", "ninteger"}, "Rsh": {"integer", "ninteger"},
		"LT": {"orderable"}, "LE": {"orderable"}, "GT": {"orderable"}, "GE": {"orderable"},
		"EQ": {"comparable"}, "NE": {"comparable"},
		"LAnd": {"bool"}, "LOr": {"bool"}, "LNot": {"bool"},
		"Neg": {"number"}, "Dup": {"number"}, "Not": {"integer"},
	}
	for _, name := range ot.builtinOrder {
		def := ot.builtinOps[name]
		want, ok := need[name]
		if !ok {
			c.Undecided(rule, "op/"+name, def.pos, "operator %s has no spec row in the authored table", name)
			continue
		}
		n++
		var got []string
		for _, o := range def.contract {
			s, ok := contractName(c, p, o)
			if !ok {
				s = "?" + o.Name()
			}
			got = append(got, s)
		}
		c.Check(join(got) == join(want), rule, "op/"+name+"/contract", def.pos, "operator %s is constrained by %v; the spec requires %v", name, got, want)
	}
	for _, an := range sortedKeys(ot.assignNames) {
		a := ot.assignNames[an]
		base := strings.TrimSuffix(an, "Assign")
		want, ok := need[base]
		if !ok {
			c.Undecided(rule, "op/"+an, a.pos, "assign operator %s has no spec row", an)
			continue
		}
		n++
		got, ok := contractName(c, p, a.contract)
		c.Check(ok && got == want[0], rule, "op/"+an+"/contract", a.pos, "operator %s is constrained by %q; the spec requires %q", an, got, want[0])
	}
	// the assign-op count parameter is the "ninteger" constraint
	if fd, pp := needDecl(c, rule, "newOpTypeParams"); fd != nil {
		found := false
		inspectFunc(fd, func(nd ast.Node) bool {
			if call, ok := nd.(*ast.CallExpr); ok && isFunc(callee(pp.TypesInfo, call), fw.Mod, "makeConstraint") && len(call.Args) == 2 {
				if s, ok := constString(pp.TypesInfo, call.Args[1]); ok && s == "ninteger" {
					found = true
				}
			}
			return true
		})
		n++
		c.Check(found, rule, "newOpTypeParams/count-constraint", fd.Pos(), "shift-assign count parameter must use the ninteger constraint")
	}
	c.Floor(rule, "operator/contract rows", n, 35)
}
