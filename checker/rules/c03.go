package rules

import (
	"go/ast"
	"go/token"
	"go/types"
	"sort"
	"strings"

	"golang.org/x/tools/go/packages"

	"gogenvet/fw"
)

func init() {
	register("C03", Prop{
		NeedSSA: false,
		Run:     runC03,
		Explanation: "R3.1 the sibling container-typing tables agree: for every container kind both serve (slice, map, array, pointer to array) the index table and the range table return the same (key, element) pair, and each table's rows equal the Go spec's (index of string -> byte; range of string -> int, rune; range of channel -> element only; range of integer -> that type, int for untyped); " +
			"R3.2 the recorder sees the object whose type is reported: at each Recorder.Member call the object argument and the type of the element pushed by the same function derive from the same value",
		NotDecided: "the result type of every construct (known mis-typings such as -int32(1) typed untyped int are not found by these rules)",
	})
}

func runC03(c *fw.Ctx) {
	r31(c)
	r32(c)
	r33(c)
	r34(c)
	methodExprReceiver(c, "R3.5")
	r36(c)
}

// typeTable: container kind -> canonical (key, elem) pairs returned.
type typeTable struct {
	rows    map[string][]string // kind -> pairs "k|v"
	unwraps map[string]bool     // kind -> the element/underlying of a Named is unwrapped before the accepting return
	pos     map[string]token.Pos
	named   bool // has `case *types.Named: typ = underlying; goto retry`
	alias   bool // has a case for *types.Alias
}

// canonTypeExpr canonicalises an expression denoting a types.Type inside the typing tables.
func canonTypeExpr(p *packages.Package, fd *ast.FuncDecl, e ast.Expr, depth int) string {
	info := p.TypesInfo
	e = unparen(e)
	if depth > 14 {
		return exprString(e)
	}
	switch x := e.(type) {
	case *ast.Ident:
		if x.Name == "nil" {
			return "nil"
		}
		obj := info.Uses[x]
		if v, ok := obj.(*types.Var); ok {
			if v.Parent() == p.Types.Scope() { // package-level alias like tyInt, TyByte
				init, _ := pkgVarInit(p, v.Name())
				if init != nil {
					return canonTypeExpr(p, fd, init, depth+1)
				}
			}
			// local: single definition or type-switch binding
			var def ast.Expr
			inspectFunc(fd, func(m ast.Node) bool {
				switch s := m.(type) {
				case *ast.AssignStmt:
					for i, l := range s.Lhs {
						if id, ok := l.(*ast.Ident); ok && (info.Defs[id] == obj) && len(s.Lhs) == len(s.Rhs) {
							def = s.Rhs[i]
						}
						if id, ok := l.(*ast.Ident); ok && info.Defs[id] == obj && len(s.Rhs) == 1 && len(s.Lhs) == 2 && i == 0 {
							def = s.Rhs[0] // e, ok := elem.(*types.Array)
						}
					}
				case *ast.TypeSwitchStmt:
					for _, cl := range s.Body.List {
						if info.Implicits[cl] == obj {
							if as, ok := s.Assign.(*ast.AssignStmt); ok {
								def = as.Rhs[0]
							}
						}
					}
				}
				return true
			})
			if def != nil {
				return canonTypeExpr(p, fd, def, depth+1)
			}
		}
		switch x.Name {
		case "TyByte":
			return "byte"
		case "TyRune":
			return "int32"
		}
		return x.Name
	case *ast.TypeAssertExpr:
		return canonTypeExpr(p, fd, x.X, depth+1) // assertions do not change the denoted type
	case *ast.IndexExpr:
		// types.Typ[types.K]
		if k, ok := constInt(info, x.Index); ok {
			if s, ok := unparen(x.X).(*ast.SelectorExpr); ok && s.Sel.Name == "Typ" {
				return types.Typ[k].Name()
			}
		}
	case *ast.CallExpr:
		if sel, ok := unparen(x.Fun).(*ast.SelectorExpr); ok {
			switch sel.Sel.Name {
			case "Elem", "Key":
				return canonTypeExpr(p, fd, sel.X, depth+1) + "." + sel.Sel.Name + "()"
			case "getUnderlying", "Underlying":
				if len(x.Args) == 1 {
					return canonTypeExpr(p, fd, x.Args[0], depth+1)
				}
				return canonTypeExpr(p, fd, sel.X, depth+1)
			case "Type":
				// universe.Lookup("byte").Type()
				if inner, ok := unparen(sel.X).(*ast.CallExpr); ok && len(inner.Args) == 1 {
					if s, ok := constString(info, inner.Args[0]); ok {
						return s
					}
				}
			}
		}
	}
	return exprString(e)
}

func readTypeTable(c *fw.Ctx, rule, name string) *typeTable {
	fd, p := needDecl(c, rule, name)
	if fd == nil {
		return nil
	}
	info := p.TypesInfo
	cases, _ := switchCaseTypes(info, fd)
	if cases == nil {
		c.Undecided(rule, name+"/shape", fd.Pos(), "no type switch")
		return nil
	}
	t := &typeTable{rows: map[string][]string{}, unwraps: map[string]bool{}, pos: map[string]token.Pos{}}
	for kind, cc := range cases {
		if kind == "default" {
			continue
		}
		t.pos[kind] = cc.Pos()
		if kind == "Alias" {
			t.alias = true
		}
		for _, st := range cc.Body {
			ast.Inspect(st, func(m ast.Node) bool {
				switch x := m.(type) {
				case *ast.ReturnStmt:
					if len(x.Results) == 0 {
						return true
					}
					if lit := asLit(x.Results[0]); lit != nil && len(lit.Elts) == 2 {
						pair := canonTypeExpr(p, fd, lit.Elts[0], 0) + "|" + canonTypeExpr(p, fd, lit.Elts[1], 0)
						t.rows[kind] = append(t.rows[kind], pair)
					}
				case *ast.BranchStmt:
					if x.Tok == token.GOTO && kind == "Named" {
						t.named = true
					}
				case *ast.CallExpr:
					if sel, ok := unparen(x.Fun).(*ast.SelectorExpr); ok && (sel.Sel.Name == "getUnderlying" || sel.Sel.Name == "Underlying") {
						t.unwraps[kind] = true
					}
				}
				return true
			})
		}
		sort.Strings(t.rows[kind])
	}
	return t
}

func r31(c *fw.Ctx) {
	const rule = "R3.1"
	idx := readTypeTable(c, rule, "(*CodeBuilder).getIdxValTypes")
	rng := readTypeTable(c, rule, "(*forRangeStmt).getKeyValTypes")
	if idx == nil || rng == nil {
		return
	}
	// the switch variable is named t in both; pointer-to-array rows normalise to t.Elem().Elem()
	n := 0
	for _, kind := range []string{"Slice", "Map", "Array", "Pointer"} {
		a, b := idx.rows[kind], rng.rows[kind]
		n++
		if len(a) == 0 || len(b) == 0 {
			c.Violate(rule, "agree/"+kind, idx.pos[kind], "container kind %s is typed by only one of the two tables (index: %v, range: %v)", kind, a, b)
			continue
		}
		// every pair of the range table that is not a user-defined-enumerator result must appear in the index table
		ok := true
		for _, pr := range b {
			found := false
			for _, pa := range a {
				if pa == pr {
					found = true
				}
			}
			if !found && !strings.Contains(pr, "kv") {
				ok = false
			}
		}
		c.Check(ok, rule, "agree/"+kind, rng.pos[kind], "index and range disagree on the (key, element) types of a %s: index %v, range %v", kind, a, b)
	}
	// spec rows
	spec := func(tbl *typeTable, tname, kind string, want []string) {
		got := tbl.rows[kind]
		n++
		okAll := true
		for _, w := range want {
			found := false
			for _, g := range got {
				if g == w {
					found = true
				}
			}
			if !found {
				okAll = false
			}
		}
		c.Check(okAll, rule, "spec/"+tname+"/"+kind, tbl.pos[kind], "%s of a %s must yield %v; the table yields %v", tname, kind, want, got)
	}
	// "typ" is the container type (the switch tag); rune is int32 in go/types; TyByte is the universe's byte
	spec(idx, "index", "Slice", []string{"int|typ.Elem()"})
	spec(idx, "index", "Array", []string{"int|typ.Elem()"})
	spec(idx, "index", "Map", []string{"typ.Key()|typ.Elem()"})
	spec(idx, "index", "Pointer", []string{"int|typ.Elem().Elem()"})
	spec(idx, "index", "Basic", []string{"int|byte"})
	spec(rng, "range", "Slice", []string{"int|typ.Elem()"})
	spec(rng, "range", "Array", []string{"int|typ.Elem()"})
	spec(rng, "range", "Map", []string{"typ.Key()|typ.Elem()"})
	spec(rng, "range", "Pointer", []string{"int|typ.Elem().Elem()"})
	spec(rng, "range", "Chan", []string{"typ.Elem()|nil"})
	spec(rng, "range", "Basic", []string{"int|int32", "int|nil", "typ|nil"})
	c.Floor(rule, "table rows compared", n, 14)
}

func r32(c *fw.Ctx) {
	const rule = "R3.2"
	p := c.Pkg("")
	info := p.TypesInfo
	n := 0
	seen := map[string]int{}
	for _, fd := range c.Decls() {
		if c.PkgOfDecl(fd) != p || fd.Body == nil {
			continue
		}
		fname := declName(c, fd)
		inspectFunc(fd, func(m ast.Node) bool {
			call, ok := m.(*ast.CallExpr)
			if !ok || len(call.Args) != 2 {
				return true
			}
			sel, ok := unparen(call.Fun).(*ast.SelectorExpr)
			if !ok || sel.Sel.Name != "Member" || !strings.HasSuffix(exprString(sel.X), "rec") {
				return true
			}
			if t := info.TypeOf(sel.X); t == nil || !strings.HasSuffix(t.String(), "Recorder") {
				return true
			}
			n++
			obj := exprString(call.Args[1])
			seen[fname]++
			key := fname + "/rec.Member(" + obj + ")"
			if seen[fname] > 1 {
				key = sprintf("%s#%d", key, seen[fname])
			}
			// the element reported in the same function takes its type/expression from the same object
			same := false
			inspectFunc(fd, func(k ast.Node) bool {
				switch x := k.(type) {
				case *ast.CallExpr:
					txt := exprString(x)
					if txt == obj+".Type()" {
						same = true
					}
					if fn, ok := callee(info, x).(*types.Func); ok && fn != nil {
						switch fn.Name() {
						case "toObject", "toObjectExpr", "Val", "methodSigOf":
							for _, a := range x.Args {
								if exprString(a) == obj || exprString(a) == obj+".Type()" {
									same = true
								}
							}
						}
					}
				case *ast.AssignStmt:
					// typ := found.Type(); ... methodSigOf(typ, ...)
					for i, r := range x.Rhs {
						if exprString(r) == obj+".Type()" && i < len(x.Lhs) {
							same = true
						}
					}
				}
				return true
			})
			c.Check(same, rule, key, call.Pos(), "the recorder is told object %s, but the element pushed by %s does not take its type from that object: clients that record definitions would disagree with the reported type", obj, fname)
			return true
		})
	}
	c.Floor(rule, "Recorder.Member calls", n, 6)
}

// R3.3: syntax and reported type are wrapped together. In a function that reports a type (returns a
// types.Type) and, in some branch, rewrites an expression in place into its pointer form
// (`x = &ast.StarExpr{X: x}`: `T.M` becomes `(*T).M`), the same branch must rewrite the type it reports into
// the pointer type of the same thing (`t = types.NewPointer(t)`). Otherwise the emitted expression has type
// func(*T, ...) while the reported type names another receiver.
func r33(c *fw.Ctx) {
	const rule = "R3.3"
	p := c.Pkg("")
	info := p.TypesInfo
	n := 0
	for _, fd := range c.Decls() {
		if c.PkgOfDecl(fd) != p || fd.Body == nil || fd.Type.Results == nil {
			continue
		}
		returnsType := false
		for _, f := range fd.Type.Results.List {
			if t := info.TypeOf(f.Type); t != nil && namedIs(t, "go/types", "Type") {
				returnsType = true
			}
		}
		if !returnsType {
			continue
		}
		fname := declName(c, fd)
		ast.Inspect(fd.Body, func(m ast.Node) bool {
			blk, ok := m.(*ast.BlockStmt)
			if !ok {
				return true
			}
			var wrapPos token.Pos
			typeWrapped := false
			for _, st := range blk.List {
				as, ok := st.(*ast.AssignStmt)
				if !ok || len(as.Lhs) != 1 || len(as.Rhs) != 1 || as.Tok != token.ASSIGN {
					continue
				}
				lhs := exprString(as.Lhs[0])
				// x = &ast.StarExpr{X: x}
				if u, ok := unparen(as.Rhs[0]).(*ast.UnaryExpr); ok && u.Op == token.AND {
					if lit, ok := u.X.(*ast.CompositeLit); ok && namedIs(info.TypeOf(lit), "go/ast", "StarExpr") {
						f := structFields(info, lit)
						if e := f["X"]; e != nil && exprString(e) == lhs {
							wrapPos = as.Pos()
						}
					}
				}
			}
			// the reported type gets its pointer form in the same branch (t = types.NewPointer(t), or the
			// pointer type is built where the reported variable is made)
			for _, st := range blk.List {
				ast.Inspect(st, func(k ast.Node) bool {
					if call, ok := k.(*ast.CallExpr); ok && isFunc(callee(info, call), "go/types", "NewPointer") {
						typeWrapped = true
					}
					return true
				})
			}
			if wrapPos != token.NoPos {
				n++
				c.Check(typeWrapped, rule, sprintf("%s/pointer-wrap-pairs-syntax-and-type#%d", fname, n), wrapPos,
					"the branch rewrites an expression into its pointer form (&ast.StarExpr{X: x}) but does not rewrite the type it reports with types.NewPointer of the same variable: the emitted `(*T).M` has receiver *T, the reported signature another receiver")
			}
			return true
		})
	}
	c.Floor(rule, "in-place pointer rewrites in type-reporting functions", n, 1)
}

// R3.4: implicit repetition in a const block repeats the preceding expression list *and its type, if any*
// (Go spec, Constant declarations). The pair recorded for a later Next must be the pair of this spec: on
// every normal path of (*ConstDefs).NewAt both remembered fields are overwritten from this call's
// parameters (an explicit spec without a type must clear the remembered type).
func r34(c *fw.Ctx) {
	const rule = "R3.4"
	fd, p := needDecl(c, rule, "(*ConstDefs).NewAt")
	if fd == nil {
		return
	}
	info := p.TypesInfo
	// fields of ConstDefs that Next/NextAt read for the repetition: those of the type itself (not embedded)
	tn, _ := p.Types.Scope().Lookup("ConstDefs").(*types.TypeName)
	if tn == nil {
		c.Undecided(rule, "anchor/ConstDefs", fd.Pos(), "type ConstDefs not found")
		return
	}
	st, _ := tn.Type().Underlying().(*types.Struct)
	var fields []*types.Var
	for i := 0; i < st.NumFields(); i++ {
		if !st.Field(i).Embedded() {
			fields = append(fields, st.Field(i))
		}
	}
	params := map[types.Object]bool{}
	for _, f := range fd.Type.Params.List {
		for _, nm := range f.Names {
			params[info.Defs[nm]] = true
		}
	}
	paths, trunc := enumPaths(info, fd.Body)
	if trunc {
		c.Undecided(rule, "NewAt/paths", fd.Pos(), "too many paths")
		return
	}
	for _, fld := range fields {
		nNormal, nSet := 0, 0
		for _, pa := range paths {
			if pa.Abnormal {
				continue
			}
			nNormal++
			set := false
			for _, nd := range pa.Nodes {
				as, ok := nd.(*ast.AssignStmt)
				if !ok || len(as.Lhs) != len(as.Rhs) {
					continue
				}
				for i, l := range as.Lhs {
					if se, ok := unparen(l).(*ast.SelectorExpr); ok && info.Uses[se.Sel] == fld {
						if id, ok := unparen(as.Rhs[i]).(*ast.Ident); ok && params[info.Uses[id]] {
							set = true
						}
					}
				}
			}
			if set {
				nSet++
			}
		}
		c.Check(nNormal > 0 && nSet == nNormal, rule, "NewAt/records-"+fld.Name(), fd.Pos(),
			"%d of %d normal paths of NewAt overwrite the remembered %s with this spec's parameter: a later implicit repetition (Next) would otherwise repeat an older spec's %s", nSet, nNormal, fld.Name(), fld.Name())
	}
	c.Floor(rule, "remembered fields", len(fields), 2)
}

// R3.5 (also run for C08 as R8.4): the signature reported for a method expression T.M / (*T).M takes, as its
// first parameter, the type the expression was written on - not the receiver the method was declared with
// (for a promoted method that is the embedded type). In methodSigOf, on every normal path the receiver
// variable handed to toFuncSig is data-dependent on the written type (the TypeType operand's type).
func methodExprReceiver(c *fw.Ctx, rule string) {
	fd, p := needDecl(c, rule, "(*CodeBuilder).methodSigOf")
	if fd == nil {
		return
	}
	info := p.TypesInfo
	paths, trunc := enumPaths(info, fd.Body)
	if trunc {
		c.Undecided(rule, "methodSigOf/paths", fd.Pos(), "too many paths")
		return
	}
	// roots: expressions reading the written type: X.Type.(*TypeType).typ / .Type()
	isRoot := func(e ast.Expr) bool {
		found := false
		ast.Inspect(e, func(n ast.Node) bool {
			if ta, ok := n.(*ast.TypeAssertExpr); ok && ta.Type != nil && namedIs(info.TypeOf(ta.Type), fw.Mod, "TypeType") {
				found = true
			}
			return !found
		})
		return found
	}
	nCalls, nOK := 0, 0
	bad := token.NoPos
	for _, pa := range paths {
		if pa.Abnormal {
			continue
		}
		dep := map[types.Object]bool{}
		mentions := func(e ast.Expr) bool {
			if isRoot(e) {
				return true
			}
			m := false
			ast.Inspect(e, func(n ast.Node) bool {
				if id, ok := n.(*ast.Ident); ok && dep[info.Uses[id]] {
					m = true
				}
				return !m
			})
			return m
		}
		for _, nd := range pa.Nodes {
			// assignments update the dependence of their targets (strong update on this path)
			if as, ok := nd.(*ast.AssignStmt); ok {
				for i, l := range as.Lhs {
					id, ok := unparen(l).(*ast.Ident)
					if !ok {
						continue
					}
					o := info.Defs[id]
					if o == nil {
						o = info.Uses[id]
					}
					var rhs ast.Expr
					if len(as.Lhs) == len(as.Rhs) {
						rhs = as.Rhs[i]
					} else if len(as.Rhs) == 1 {
						rhs = as.Rhs[0]
					}
					if rhs != nil && o != nil {
						dep[o] = mentions(rhs)
					}
				}
			}
			ast.Inspect(nd, func(n ast.Node) bool {
				call, ok := n.(*ast.CallExpr)
				if !ok || !isFunc(callee(info, call), fw.Mod, "toFuncSig") || len(call.Args) != 2 {
					return true
				}
				nCalls++
				if mentions(call.Args[1]) {
					nOK++
				} else if bad == token.NoPos {
					bad = call.Pos()
				}
				return true
			})
		}
	}
	if nCalls == 0 {
		c.Undecided(rule, "methodSigOf/toFuncSig", fd.Pos(), "no path of methodSigOf builds the function signature through toFuncSig")
		return
	}
	if bad == token.NoPos {
		bad = fd.Pos()
	}
	c.Check(nOK == nCalls, rule, "methodSigOf/receiver-is-the-written-type", bad,
		"on %d of %d path occurrences the first parameter of the method-expression signature derives from the type the expression was written on; elsewhere it is the declared receiver: for a promoted method `Outer.M` the reported type would be func(Inner, ...) while Go's is func(Outer, ...)", nOK, nCalls)
}
