package rules

import (
	"fmt"
	"go/ast"
	"go/token"
	"go/types"
	"sort"
	"strings"
)

// E6: canonical decision tables. A function body is turned into a small symbolic
// tree (return / if-then-else / loop / effect); boolean verdicts are compared as
// truth tables over their atoms (uninterpreted calls and comparisons after a stated
// renaming), loops by header and body signature. This compares normalised syntax;
// nothing is executed.

type symKind int

const (
	sRet symKind = iota
	sIte
	sLoop
	sCont
	sPanic
	sEffect
)

type sym struct {
	kind symKind
	b    *bexp  // sRet: verdict; sIte: condition
	a, c *sym   // sIte: then/else; sLoop: body/after; sEffect: next
	text string // sLoop: header; sEffect: canonical assignment
}

type bkind int

const (
	bAtom bkind = iota
	bConst
	bNot
	bAnd
	bOr
)

type bexp struct {
	kind bkind
	atom string
	val  bool
	xs   []*bexp
}

func (b *bexp) atoms(set map[string]bool) {
	switch b.kind {
	case bAtom:
		set[b.atom] = true
	case bNot, bAnd, bOr:
		for _, x := range b.xs {
			x.atoms(set)
		}
	}
}

func (b *bexp) eval(asg map[string]bool) bool {
	switch b.kind {
	case bAtom:
		return asg[b.atom]
	case bConst:
		return b.val
	case bNot:
		return !b.xs[0].eval(asg)
	case bAnd:
		for _, x := range b.xs {
			if !x.eval(asg) {
				return false
			}
		}
		return true
	case bOr:
		for _, x := range b.xs {
			if x.eval(asg) {
				return true
			}
		}
		return false
	}
	return false
}

func (s *sym) atoms(set map[string]bool) {
	if s == nil {
		return
	}
	switch s.kind {
	case sRet:
		s.b.atoms(set)
	case sIte:
		s.b.atoms(set)
		s.a.atoms(set)
		s.c.atoms(set)
	case sLoop:
		s.c.atoms(set) // body atoms live inside the loop signature
	case sEffect:
		s.a.atoms(set)
	}
}

func (s *sym) outcome(asg map[string]bool) string {
	switch s.kind {
	case sRet:
		return fmt.Sprint(s.b.eval(asg))
	case sIte:
		if s.b.eval(asg) {
			return s.a.outcome(asg)
		}
		return s.c.outcome(asg)
	case sLoop:
		return "LOOP(" + s.text + "){" + s.a.signature() + "};" + s.c.outcome(asg)
	case sCont:
		return "next"
	case sPanic:
		return "panic"
	case sEffect:
		return "[" + s.text + "];" + s.a.outcome(asg)
	}
	return "?"
}

// signature is the canonical form: relevant atoms and the outcome for every assignment.
func (s *sym) signature() string {
	set := map[string]bool{}
	s.atoms(set)
	atoms := sortedKeys(set)
	if len(atoms) > 12 {
		return "TOO-MANY-ATOMS"
	}
	table := func(at []string) []string {
		var rows []string
		for m := 0; m < 1<<len(at); m++ {
			asg := map[string]bool{}
			for i, a := range at {
				asg[a] = m&(1<<i) != 0
			}
			rows = append(rows, s.outcome(asg))
		}
		return rows
	}
	// drop atoms that never influence the outcome
	full := table(atoms)
	var relevant []string
	for i, a := range atoms {
		infl := false
		for m := 0; m < 1<<len(atoms); m++ {
			if m&(1<<i) == 0 && full[m] != full[m|(1<<i)] {
				infl = true
				break
			}
		}
		if infl {
			relevant = append(relevant, a)
		}
	}
	rows := table(relevant)
	var sb strings.Builder
	sb.WriteString("atoms[" + strings.Join(relevant, " ; ") + "] ")
	for m, r := range rows {
		fmt.Fprintf(&sb, "%0*b=>%s ", len(relevant), m, r)
	}
	return strings.TrimSpace(sb.String())
}

// ---------------------------------------------------------------------------

type e6env struct {
	info    *types.Info
	subst   map[types.Object]string // local -> canonical text
	state   map[types.Object]bool   // variables assigned in loops/branches: kept as named state
	nstate  int
	rename  map[string]string                                // selector/field renames (stated renaming)
	callees map[types.Object]string                          // function object -> canonical name
	inline  func(call *ast.CallExpr, e *e6env) (*bexp, bool) // optional inlining of helper predicates
	err     string
}

func (e *e6env) clone() *e6env {
	n := *e
	n.subst = map[types.Object]string{}
	for k, v := range e.subst {
		n.subst[k] = v
	}
	return &n
}

func (e *e6env) fail(format string, args ...any) {
	if e.err == "" {
		e.err = fmt.Sprintf(format, args...)
	}
}

// canon prints an expression with locals substituted and names canonicalised.
func (e *e6env) canon(x ast.Expr) string {
	switch v := x.(type) {
	case nil:
		return ""
	case *ast.ParenExpr:
		return e.canon(v.X)
	case *ast.Ident:
		obj := e.info.Uses[v]
		if obj == nil {
			obj = e.info.Defs[v]
		}
		if s, ok := e.subst[obj]; ok {
			return s
		}
		if s, ok := e.callees[obj]; ok {
			return s
		}
		if tn, ok := obj.(*types.TypeName); ok && tn.Pkg() != nil && tn.Parent() == tn.Pkg().Scope() {
			return tn.Pkg().Name() + "." + tn.Name()
		}
		return v.Name
	case *ast.BasicLit:
		return v.Value
	case *ast.SelectorExpr:
		if id, ok := v.X.(*ast.Ident); ok {
			if _, isPkg := e.info.Uses[id].(*types.PkgName); isPkg {
				if obj := e.info.Uses[v.Sel]; obj != nil {
					if s, ok := e.callees[obj]; ok {
						return s
					}
				}
				if obj := e.info.Uses[v.Sel]; obj != nil && obj.Pkg() != nil {
					return obj.Pkg().Name() + "." + v.Sel.Name
				}
				return id.Name + "." + v.Sel.Name
			}
		}
		name := v.Sel.Name
		if r, ok := e.rename[name]; ok {
			name = r
		}
		return e.canon(v.X) + "." + name
	case *ast.CallExpr:
		var args []string
		for _, a := range v.Args {
			args = append(args, e.canon(a))
		}
		return e.canon(v.Fun) + "(" + strings.Join(args, ", ") + ")"
	case *ast.IndexExpr:
		// map[K]bool lookup == membership (stated renaming for presence sets)
		if t, ok := e.info.TypeOf(v.X).Underlying().(*types.Map); ok {
			_ = t
			return "HAS(" + e.canon(v.X) + ", " + e.canon(v.Index) + ")"
		}
		return e.canon(v.X) + "[" + e.canon(v.Index) + "]"
	case *ast.TypeAssertExpr:
		return e.canon(v.X) + ".(" + e.canon(v.Type) + ")"
	case *ast.StarExpr:
		return "*" + e.canon(v.X)
	case *ast.UnaryExpr:
		return v.Op.String() + e.canon(v.X)
	case *ast.BinaryExpr:
		return "(" + e.canon(v.X) + " " + v.Op.String() + " " + e.canon(v.Y) + ")"
	}
	e.fail("expression %s not understood", types.ExprString(x))
	return "?"
}

func (e *e6env) boolOf(x ast.Expr) *bexp {
	x = unparen(x)
	switch v := x.(type) {
	case *ast.BinaryExpr:
		switch v.Op {
		case token.LAND:
			return &bexp{kind: bAnd, xs: []*bexp{e.boolOf(v.X), e.boolOf(v.Y)}}
		case token.LOR:
			return &bexp{kind: bOr, xs: []*bexp{e.boolOf(v.X), e.boolOf(v.Y)}}
		case token.NEQ:
			// a != b  ==  !(a == b): one atom for both spellings
			return &bexp{kind: bNot, xs: []*bexp{{kind: bAtom, atom: "(" + e.canon(v.X) + " == " + e.canon(v.Y) + ")"}}}
		}
	case *ast.UnaryExpr:
		if v.Op == token.NOT {
			return &bexp{kind: bNot, xs: []*bexp{e.boolOf(v.X)}}
		}
	case *ast.Ident:
		if tv, ok := e.info.Types[v]; ok && tv.Value != nil {
			return &bexp{kind: bConst, val: tv.Value.String() == "true"}
		}
		obj := e.info.Uses[v]
		if s, ok := e.subst[obj]; ok && strings.HasPrefix(s, "\x00B") {
			// substituted boolean tree (stored out of band)
			return boolStore[s]
		}
	case *ast.CallExpr:
		if e.inline != nil {
			if b, ok := e.inline(v, e); ok {
				return b
			}
		}
	}
	return &bexp{kind: bAtom, atom: e.canon(x)}
}

// boolStore keeps boolean trees substituted for comma-ok variables.
var boolStore = map[string]*bexp{}

func (e *e6env) bindBool(obj types.Object, b *bexp) {
	key := fmt.Sprintf("\x00B%d", len(boolStore))
	boolStore[key] = b
	e.subst[obj] = key
}

func (e *e6env) objOf(id *ast.Ident) types.Object {
	if o := e.info.Defs[id]; o != nil {
		return o
	}
	return e.info.Uses[id]
}

// assign handles `lhs (:=|=) rhs` in straight-line position. Returns an effect text for state variables.
func (e *e6env) assign(s *ast.AssignStmt) (effect string) {
	// comma-ok forms
	if len(s.Lhs) == 2 && len(s.Rhs) == 1 {
		v, _ := s.Lhs[0].(*ast.Ident)
		ok, _ := s.Lhs[1].(*ast.Ident)
		if v == nil || ok == nil {
			e.fail("assignment %s not understood", nodeString(s))
			return
		}
		switch r := unparen(s.Rhs[0]).(type) {
		case *ast.TypeAssertExpr:
			x, t := e.canon(r.X), e.canon(r.Type)
			if v.Name != "_" {
				e.subst[e.objOf(v)] = x + ".(" + t + ")"
			}
			if ok.Name != "_" {
				e.bindBool(e.objOf(ok), &bexp{kind: bAtom, atom: "IS(" + x + ", " + t + ")"})
			}
			return
		case *ast.IndexExpr:
			m, k := e.canon(r.X), e.canon(r.Index)
			if v.Name != "_" {
				e.subst[e.objOf(v)] = m + "[" + k + "]"
			}
			if ok.Name != "_" {
				e.bindBool(e.objOf(ok), &bexp{kind: bAtom, atom: "HAS(" + m + ", " + k + ")"})
			}
			return
		}
		if call, isCall := unparen(s.Rhs[0]).(*ast.CallExpr); isCall {
			// two-result call: results named by position
			txt := e.canon(call)
			if v.Name != "_" {
				e.subst[e.objOf(v)] = "RES0(" + txt + ")"
			}
			if ok.Name != "_" {
				e.subst[e.objOf(ok)] = "RES1(" + txt + ")"
			}
			return
		}
		e.fail("assignment %s not understood", nodeString(s))
		return
	}
	if len(s.Lhs) != 1 || len(s.Rhs) != 1 {
		e.fail("assignment %s not understood", nodeString(s))
		return
	}
	id, _ := s.Lhs[0].(*ast.Ident)
	if id == nil {
		// store through a pointer/field: an effect on memory, kept as text
		return e.canon(s.Lhs[0]) + "=" + e.canon(s.Rhs[0])
	}
	obj := e.objOf(id)
	if e.state[obj] {
		name, ok := e.subst[obj]
		if !ok {
			name = fmt.Sprintf("M%d", e.nstate)
			e.nstate++
			e.subst[obj] = name
		}
		return name + "=" + e.canon(s.Rhs[0])
	}
	e.subst[obj] = e.canon(s.Rhs[0])
	return ""
}

func nodeString(n ast.Node) string {
	switch x := n.(type) {
	case ast.Expr:
		return types.ExprString(x)
	case *ast.AssignStmt:
		var l, r []string
		for _, e := range x.Lhs {
			l = append(l, types.ExprString(e))
		}
		for _, e := range x.Rhs {
			r = append(r, types.ExprString(e))
		}
		return strings.Join(l, ", ") + " " + x.Tok.String() + " " + strings.Join(r, ", ")
	}
	return fmt.Sprintf("%T", n)
}

// stateVars finds variables assigned inside loops or inside if-bodies: they cannot be
// substituted flow-sensitively and are kept as named state.
func stateVars(info *types.Info, body *ast.BlockStmt) map[types.Object]bool {
	r := map[types.Object]bool{}
	var walk func(n ast.Node, nested bool)
	walk = func(n ast.Node, nested bool) {
		ast.Inspect(n, func(m ast.Node) bool {
			switch s := m.(type) {
			case *ast.ForStmt:
				if s.Init != nil {
					walk(s.Init, nested)
				}
				if s.Post != nil {
					walk(s.Post, true)
				}
				walk(s.Body, true)
				return false
			case *ast.RangeStmt:
				walk(s.Body, true)
				return false
			case *ast.IfStmt:
				if s.Init != nil {
					walk(s.Init, nested)
				}
				// an if body that ends in return does not merge back
				walk(s.Body, nested || !endsInReturn(s.Body))
				if s.Else != nil {
					walk(s.Else, true)
				}
				return false
			case *ast.AssignStmt:
				if nested && s.Tok != token.DEFINE {
					for _, l := range s.Lhs {
						if id, ok := l.(*ast.Ident); ok && id.Name != "_" {
							if o := info.Uses[id]; o != nil {
								r[o] = true
							}
						}
					}
				}
			case *ast.IncDecStmt:
				if id, ok := s.X.(*ast.Ident); ok {
					if o := info.Uses[id]; o != nil {
						r[o] = true
					}
				}
			}
			return true
		})
	}
	walk(body, false)
	return r
}

func endsInReturn(b *ast.BlockStmt) bool {
	if len(b.List) == 0 {
		return false
	}
	_, ok := b.List[len(b.List)-1].(*ast.ReturnStmt)
	return ok
}

// evalStmts turns a statement list into a sym; k is what happens after the list.
func (e *e6env) evalStmts(list []ast.Stmt, k *sym) *sym {
	if len(list) == 0 {
		return k
	}
	st, rest := list[0], list[1:]
	switch s := st.(type) {
	case *ast.ReturnStmt:
		if len(s.Results) != 1 {
			e.fail("return with %d results", len(s.Results))
			return &sym{kind: sPanic}
		}
		return &sym{kind: sRet, b: e.boolOf(s.Results[0])}
	case *ast.BlockStmt:
		return e.evalStmts(append(append([]ast.Stmt{}, s.List...), rest...), k)
	case *ast.EmptyStmt:
		return e.evalStmts(rest, k)
	case *ast.ExprStmt:
		if call, ok := s.X.(*ast.CallExpr); ok {
			if id, ok := call.Fun.(*ast.Ident); ok && id.Name == "panic" {
				return &sym{kind: sPanic}
			}
		}
		e.fail("expression statement %s not understood", types.ExprString(s.X))
		return &sym{kind: sPanic}
	case *ast.AssignStmt:
		if eff := e.assign(s); eff != "" {
			return &sym{kind: sEffect, text: eff, a: e.evalStmts(rest, k)}
		}
		return e.evalStmts(rest, k)
	case *ast.DeclStmt:
		e.fail("declaration statement not understood")
		return &sym{kind: sPanic}
	case *ast.IfStmt:
		env := e
		if s.Init != nil {
			as, ok := s.Init.(*ast.AssignStmt)
			if !ok {
				e.fail("if-init not understood")
				return &sym{kind: sPanic}
			}
			env = e.clone()
			if eff := env.assign(as); eff != "" {
				e.fail("if-init assigns state")
			}
		}
		cond := env.boolOf(s.Cond)
		after := e.clone().evalStmts(rest, k)
		thenEnv := env.clone()
		th := thenEnv.evalStmts(s.Body.List, after)
		var el *sym
		if s.Else != nil {
			el = env.clone().evalStmts([]ast.Stmt{s.Else}, after)
		} else {
			el = after
		}
		if thenEnv.err != "" {
			e.fail("%s", thenEnv.err)
		}
		if env.err != "" {
			e.fail("%s", env.err)
		}
		return &sym{kind: sIte, b: cond, a: th, c: el}
	case *ast.RangeStmt:
		env := e.clone()
		x := env.canon(s.X)
		if id, ok := s.Value.(*ast.Ident); ok && id.Name != "_" {
			env.subst[env.objOf(id)] = "ELEM(" + x + ")"
		}
		if id, ok := s.Key.(*ast.Ident); ok && id.Name != "_" {
			env.subst[env.objOf(id)] = "KEY(" + x + ")"
		}
		body := env.evalStmts(s.Body.List, &sym{kind: sCont})
		if env.err != "" {
			e.fail("%s", env.err)
		}
		// state assigned in the loop keeps its name afterwards
		for o, v := range env.subst {
			if e.state[o] {
				e.subst[o] = v
			}
		}
		e.nstate = env.nstate
		return &sym{kind: sLoop, text: "range " + x, a: body, c: e.evalStmts(rest, k)}
	case *ast.ForStmt:
		env := e.clone()
		hdr := "for "
		if s.Init != nil {
			if as, ok := s.Init.(*ast.AssignStmt); ok && len(as.Lhs) == 1 {
				if id, ok := as.Lhs[0].(*ast.Ident); ok {
					env.subst[env.objOf(id)] = "I"
					hdr += "I=" + env.canon(as.Rhs[0])
				}
			} else {
				e.fail("for-init not understood")
			}
		}
		hdr += ";"
		if s.Cond != nil {
			hdr += env.canon(s.Cond)
		}
		hdr += ";"
		switch p := s.Post.(type) {
		case nil:
		case *ast.IncDecStmt:
			hdr += env.canon(p.X) + p.Tok.String()
		default:
			e.fail("for-post not understood")
		}
		body := env.evalStmts(s.Body.List, &sym{kind: sCont})
		if env.err != "" {
			e.fail("%s", env.err)
		}
		return &sym{kind: sLoop, text: hdr, a: body, c: e.evalStmts(rest, k)}
	}
	e.fail("statement %T not understood", st)
	return &sym{kind: sPanic}
}

// bindParams names the receiver R and parameters P0, P1, ...
func (e *e6env) bindParams(fd *ast.FuncDecl) {
	if fd.Recv != nil {
		for _, f := range fd.Recv.List {
			for _, n := range f.Names {
				e.subst[e.info.Defs[n]] = "R"
			}
		}
	}
	i := 0
	for _, f := range fd.Type.Params.List {
		for _, n := range f.Names {
			e.subst[e.info.Defs[n]] = fmt.Sprintf("P%d", i)
			i++
		}
	}
}

// typeSwitchTable evaluates a function whose body is `switch x := x.(type) {...}; <rest>` into
// case type (canonical string) -> sym. "default" holds the default clause (nil when absent:
// falls through to rest).
func (e *e6env) typeSwitchTable(fd *ast.FuncDecl) (map[string]*sym, *sym, bool) {
	var sw *ast.TypeSwitchStmt
	idx := -1
	for i, st := range fd.Body.List {
		if s, ok := st.(*ast.TypeSwitchStmt); ok {
			sw, idx = s, i
			break
		}
	}
	if sw == nil {
		e.fail("no type switch")
		return nil, nil, false
	}
	// statements before the switch: straight-line
	pre := e.clone()
	for _, st := range fd.Body.List[:idx] {
		if as, ok := st.(*ast.AssignStmt); ok {
			pre.assign(as)
		} else {
			e.fail("statement before the type switch not understood")
		}
	}
	rest := fd.Body.List[idx+1:]
	// the switch tag
	var tag string
	switch a := sw.Assign.(type) {
	case *ast.AssignStmt:
		tag = pre.canon(a.Rhs[0].(*ast.TypeAssertExpr).X)
	case *ast.ExprStmt:
		tag = pre.canon(a.X.(*ast.TypeAssertExpr).X)
	}
	table := map[string]*sym{}
	var def *sym
	hasDef := false
	for _, cl := range sw.Body.List {
		cc := cl.(*ast.CaseClause)
		env := pre.clone()
		if obj := e.info.Implicits[cc]; obj != nil {
			env.subst[obj] = tag
		}
		after := pre.clone().evalStmts(rest, &sym{kind: sPanic})
		s := env.evalStmts(cc.Body, after)
		if env.err != "" {
			e.fail("%s", env.err)
		}
		if cc.List == nil {
			def, hasDef = s, true
			continue
		}
		for _, t := range cc.List {
			table[pre.canon(t)] = s
		}
	}
	if !hasDef {
		def = pre.clone().evalStmts(rest, &sym{kind: sPanic})
	}
	return table, def, true
}

func sortedSymKeys(m map[string]*sym) []string {
	var r []string
	for k := range m {
		r = append(r, k)
	}
	sort.Strings(r)
	return r
}
