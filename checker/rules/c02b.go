package rules

import "gogenvet/fw"

func r22(c *fw.Ctx) {}
func r23(c *fw.Ctx) {}
