package rules

import (
	"go/ast"
	"go/types"

	"gogenvet/fw"
)

// R2.2 (operand placement is monotone) is not implemented: see DESIGN.md.
func r22(c *fw.Ctx) {}

// R2.3: the two sibling container tables - index (getIdxValTypes) and range (getKeyValTypes) - accept the
// same pointer-to-array operands. Go allows both `p[i]` and `range p` for p of type *A where A's underlying
// type is an array (a named array type included). Each sibling's `*types.Pointer` arm is classified by
// whether a named element type is unwrapped to its underlying type before the array test; they must agree.
func r23(c *fw.Ctx) {
	const rule = "R2.3"
	type res struct {
		found, arrayTest, unwrapsNamed bool
		pos                            ast.Node
	}
	classify := func(name string) res {
		var r res
		fd, p := needDecl(c, rule, name)
		if fd == nil {
			return r
		}
		info := p.TypesInfo
		ast.Inspect(fd.Body, func(n ast.Node) bool {
			cc, ok := n.(*ast.CaseClause)
			if !ok || len(cc.List) != 1 || !namedIs(info.TypeOf(cc.List[0]), "go/types", "Pointer") {
				return true
			}
			if r.found {
				return true
			}
			r.found, r.pos = true, cc
			ast.Inspect(cc, func(m ast.Node) bool {
				switch x := m.(type) {
				case *ast.TypeAssertExpr:
					if x.Type != nil && namedIs(info.TypeOf(x.Type), "go/types", "Array") {
						r.arrayTest = true
					}
				case *ast.CaseClause:
					for _, e := range x.List {
						if namedIs(info.TypeOf(e), "go/types", "Array") {
							r.arrayTest = true
						}
					}
				case *ast.CallExpr:
					// the named element is unwrapped to its underlying type somewhere in the arm
					if fn, _ := callee(info, x).(*types.Func); fn != nil && (fn.Name() == "getUnderlying" || fn.Name() == "Underlying") {
						r.unwrapsNamed = true
					}
				}
				return true
			})
			return true
		})
		return r
	}
	idx := classify("(*CodeBuilder).getIdxValTypes")
	rng := classify("(*forRangeStmt).getKeyValTypes")
	if !idx.found || !rng.found || !idx.arrayTest || !rng.arrayTest {
		c.Undecided(rule, "pointer-arms", 0, "the pointer-to-array arms of the index and range tables were not both found (index: %+v, range: %+v)", idx.found && idx.arrayTest, rng.found && rng.arrayTest)
		return
	}
	c.Check(idx.unwrapsNamed == rng.unwrapsNamed, rule, "getKeyValTypes/pointer-to-named-array", rng.pos.Pos(),
		"index accepts a pointer to a named array type (unwraps the element to its underlying type: %v) but range does not (%v): `for i := range p` with p *A, type A [3]int is rejected although p[0] is accepted and Go accepts both", idx.unwrapsNamed, rng.unwrapsNamed)
	_ = fw.Mod
}
