package rules

import (
	"go/ast"
	"go/token"
	"go/types"
	"strings"

	"golang.org/x/tools/go/packages"

	"gogenvet/fw"
)

func init() {
	register("C19", Prop{
		NeedSSA: false,
		Run:     runC19,
		Explanation: "R19.1 the hash of a type reads only components that type identity compares (accessors called on each go/types receiver are a subset of the identity-relevant ones; parameter names, receivers, positions, packages are never read), and every types.Type implementer has a case; " +
			"R19.2 order-insensitive components (interface methods, term sets) are accumulated commutatively, and the shallow hash never recurses into element types (cycle freedom); " +
			"R19.3 operation discipline: buckets are selected by hash(key) of the parameter key, keys are compared with types.Identical under the tombstone guard, Delete clears in place and never compacts, length is incremented exactly on the adding paths of Set and decremented exactly on the clearing path of Delete, Len of a nil map is 0, the builtin-type table is reached only through At",
		NotDecided: "collision behaviour and agreement with a reference association list on every operation sequence",
	})
}

func runC19(c *fw.Ctx) {
	r191(c)
	r192(c)
	r193(c)
	r194(c)
	r195(c)
}

var hashFuncs = []string{"typeutil:hasher.hash", "typeutil:hasher.hashTuple", "typeutil:hasher.hashUnion", "typeutil:hasher.hashTermSet",
	"typeutil:hasher.hashTypeParam", "typeutil:hasher.hashTypeName", "typeutil:hasher.shallowHash"}

// identity-relevant accessors (spec "Type identity"; generic signatures: identical up to
// renaming of type parameters => index and constraint; named types => the declaring object).
var identityAccessors = map[string]bool{
	"Basic.Kind": true, "Array.Len": true, "Array.Elem": true, "Slice.Elem": true, "Pointer.Elem": true,
	"Struct.NumFields": true, "Struct.Field": true, "Struct.Tag": true,
	"Signature.Variadic": true, "Signature.TypeParams": true, "Signature.Params": true, "Signature.Results": true,
	"TypeParamList.Len": true, "TypeParamList.At": true, "TypeParam.Constraint": true, "TypeParam.Index": true, "TypeParam.Obj": true,
	"Union.Len": true, "Union.Term": true, "Term.Type": true, "Term.Tilde": true,
	"Interface.NumMethods": true, "Interface.Method": true, "Interface.NumEmbeddeds": true, "Interface.EmbeddedType": true,
	"Interface.NumExplicitMethods": true, "Interface.ExplicitMethod": true, "Func.Name": true, "Func.Type": true, "Func.Signature": true,
	"Map.Key": true, "Map.Elem": true, "Chan.Dir": true, "Chan.Elem": true,
	"Named.Obj": true, "Named.TypeArgs": true, "TypeList.Len": true, "TypeList.At": true,
	"Tuple.Len": true, "Tuple.At": true,
	// struct fields (Var obtained from Struct.Field): name, embeddedness, type
	"Var(field).Name": true, "Var(field).Anonymous": true, "Var(field).Embedded": true, "Var(field).Type": true,
	// tuple elements (Var obtained from Tuple.At): only the type; names are not part of identity
	"Var(tuple).Type": true,
}

func r191(c *fw.Ctx) {
	const rule = "R19.1"
	n := 0
	for _, name := range hashFuncs {
		fd, p := needDecl(c, rule, name)
		if fd == nil {
			continue
		}
		info := p.TypesInfo
		// provenance of *types.Var values: from Struct.Field or Tuple.At
		varKind := map[types.Object]string{}
		classifyCall := func(e ast.Expr) string {
			if call, ok := unparen(e).(*ast.CallExpr); ok {
				if fn, ok := callee(info, call).(*types.Func); ok && fn.Pkg() != nil && fn.Pkg().Path() == "go/types" {
					switch staticMethodName(info, call, fn) {
					case "Struct.Field":
						return "field"
					case "Tuple.At":
						return "tuple"
					}
				}
			}
			return ""
		}
		inspectFunc(fd, func(m ast.Node) bool {
			if as, ok := m.(*ast.AssignStmt); ok && len(as.Lhs) == 1 && len(as.Rhs) == 1 {
				if k := classifyCall(as.Rhs[0]); k != "" {
					if id, ok := as.Lhs[0].(*ast.Ident); ok {
						if o := info.Defs[id]; o != nil {
							varKind[o] = k
						}
					}
				}
			}
			return true
		})
		short := strings.TrimPrefix(name, "typeutil:")
		inspectFunc(fd, func(m ast.Node) bool {
			call, ok := m.(*ast.CallExpr)
			if !ok {
				return true
			}
			fn, ok := callee(info, call).(*types.Func)
			if !ok || fn.Pkg() == nil || fn.Pkg().Path() != "go/types" {
				return true
			}
			sig := fn.Type().(*types.Signature)
			if sig.Recv() == nil {
				return true // package function (Unalias, Identical)
			}
			acc := staticMethodName(info, call, fn)
			if strings.HasPrefix(acc, "Var.") {
				kind := "?"
				if sel, ok := unparen(call.Fun).(*ast.SelectorExpr); ok {
					if k := classifyCall(sel.X); k != "" {
						kind = k
					} else if id, ok := unparen(sel.X).(*ast.Ident); ok {
						if k, ok := varKind[info.Uses[id]]; ok {
							kind = k
						}
					}
				}
				acc = "Var(" + kind + ")." + fn.Name()
			}
			n++
			c.Check(identityAccessors[acc], rule, short+"/reads/"+acc, call.Pos(),
				"the hash reads %s, which type identity does not compare: identical types may hash differently", acc)
			return true
		})
	}
	c.Floor(rule, "accessor reads", n, 40)
	// exhaustiveness of the deep and the shallow hash
	for _, name := range []string{"typeutil:hasher.hash", "typeutil:hasher.shallowHash"} {
		fd, p := funcDecl(c, name)
		if fd == nil {
			continue
		}
		cases, _ := switchCaseTypes(p.TypesInfo, fd)
		short := strings.TrimPrefix(name, "typeutil:")
		for _, t := range typeImplementers(c) {
			_, ok := cases[t]
			c.Check(ok, rule, short+"/case/"+t, fd.Pos(), "%s has no case for *types.%s (panic on such a key)", short, t)
		}
	}
}

func r192(c *fw.Ctx) {
	const rule = "R19.2"
	// commutative accumulation in the two loops over unordered components
	checkLoop := func(p *packages.Package, fname string, loop ast.Stmt, body *ast.BlockStmt, idx types.Object, key string) {
		info := p.TypesInfo
		declared := map[types.Object]bool{}
		ast.Inspect(body, func(m ast.Node) bool {
			if as, ok := m.(*ast.AssignStmt); ok && as.Tok == token.DEFINE {
				for _, l := range as.Lhs {
					if id, ok := l.(*ast.Ident); ok {
						declared[info.Defs[id]] = true
					}
				}
			}
			return true
		})
		found := 0
		ast.Inspect(body, func(m ast.Node) bool {
			var lhs ast.Expr
			var rhs ast.Expr
			var tok token.Token
			switch s := m.(type) {
			case *ast.AssignStmt:
				if len(s.Lhs) != 1 || s.Tok == token.DEFINE {
					return true
				}
				lhs, rhs, tok = s.Lhs[0], s.Rhs[0], s.Tok
			case *ast.IncDecStmt:
				lhs, tok = s.X, s.Tok
			default:
				return true
			}
			id, ok := lhs.(*ast.Ident)
			if !ok {
				return true
			}
			acc := info.Uses[id]
			if acc == nil || declared[acc] {
				return true // per-iteration temporary
			}
			found++
			okOp := tok == token.ADD_ASSIGN || tok == token.XOR_ASSIGN
			dep := false
			if rhs != nil {
				ast.Inspect(rhs, func(k ast.Node) bool {
					if rid, ok := k.(*ast.Ident); ok {
						if info.Uses[rid] == acc {
							dep = true
						}
					}
					return true
				})
				// the loop index may only select the element
				if idx != nil {
					ast.Inspect(rhs, func(k ast.Node) bool {
						if call, ok := k.(*ast.CallExpr); ok {
							if fn, ok := callee(info, call).(*types.Func); ok && fn.Pkg() != nil && fn.Pkg().Path() == "go/types" {
								return false // t.Method(i): selecting
							}
						}
						if rid, ok := k.(*ast.Ident); ok && info.Uses[rid] == idx {
							dep = true
						}
						return true
					})
				}
			}
			c.Check(okOp && !dep, rule, key, m.Pos(), "%s: an order-insensitive component is accumulated with %s (must be += or ^= of a term independent of the accumulator and of the position)", fname, tok)
			return true
		})
		if found == 0 {
			c.Undecided(rule, key, loop.Pos(), "no accumulation found in the loop")
		}
	}
	if fd, p := needDecl(c, rule, "typeutil:hasher.hash"); fd != nil {
		cases, _ := switchCaseTypes(p.TypesInfo, fd)
		if cc := cases["Interface"]; cc != nil {
			done := false
			for _, st := range cc.Body {
				if fs, ok := st.(*ast.ForStmt); ok && !done {
					var idx types.Object
					if as, ok := fs.Init.(*ast.AssignStmt); ok {
						if id, ok := as.Lhs[0].(*ast.Ident); ok {
							idx = p.TypesInfo.Defs[id]
						}
					}
					checkLoop(p, "hasher.hash", fs, fs.Body, idx, "hash/Interface/methods-commutative")
					done = true
				}
			}
			if !done {
				c.Undecided(rule, "hash/Interface/methods-commutative", cc.Pos(), "method loop not found")
			}
		}
	}
	if fd, p := needDecl(c, rule, "typeutil:hasher.hashTermSet"); fd != nil {
		done := false
		for _, st := range fd.Body.List {
			switch s := st.(type) {
			case *ast.RangeStmt:
				var idx types.Object
				if id, ok := s.Key.(*ast.Ident); ok && id.Name != "_" {
					idx = p.TypesInfo.Defs[id]
				}
				checkLoop(p, "hasher.hashTermSet", s, s.Body, idx, "hashTermSet/terms-commutative")
				done = true
			case *ast.ForStmt:
				checkLoop(p, "hasher.hashTermSet", s, s.Body, nil, "hashTermSet/terms-commutative")
				done = true
			}
		}
		if !done {
			c.Undecided(rule, "hashTermSet/terms-commutative", fd.Pos(), "term loop not found")
		}
	}
	// shallow hash: no call of the deep hash, and no recursion from the element-bearing kinds
	if fd, p := needDecl(c, rule, "typeutil:hasher.shallowHash"); fd != nil {
		info := p.TypesInfo
		self, _ := info.Defs[fd.Name].(*types.Func)
		deep := c.LookupFunc("typeutil:hasher.hash")
		cases, _ := switchCaseTypes(info, fd)
		for _, t := range []string{"Array", "Slice", "Struct", "Pointer", "Union", "Interface", "Map", "Chan", "Named"} {
			cc := cases[t]
			if cc == nil {
				continue
			}
			rec := false
			for _, st := range cc.Body {
				ast.Inspect(st, func(m ast.Node) bool {
					if call, ok := m.(*ast.CallExpr); ok {
						if fn, ok := callee(info, call).(*types.Func); ok && (fn == self || fn == deep) {
							rec = true
						}
					}
					return true
				})
			}
			c.Check(!rec, rule, "shallowHash/"+t+"/no-recursion", cc.Pos(), "the shallow hash recurses into a *types.%s: interface method signatures can refer back to the interface (unbounded recursion)", t)
		}
		usesDeep := false
		inspectFunc(fd, func(m ast.Node) bool {
			if call, ok := m.(*ast.CallExpr); ok {
				if fn, ok := callee(info, call).(*types.Func); ok && fn == deep {
					usesDeep = true
				}
			}
			return true
		})
		c.Check(!usesDeep, rule, "shallowHash/no-deep-hash", fd.Pos(), "the shallow hash must not call the deep hash")
	}
}

func r193(c *fw.Ctx) {
	const rule = "R19.3"
	p := c.Pkg("typeutil")
	info := p.TypesInfo
	hashFn := p.Types.Scope().Lookup("hash")
	for _, op := range []string{"Set", "At", "Delete"} {
		fd, _ := needDecl(c, rule, "typeutil:(*Map)."+op)
		if fd == nil {
			continue
		}
		keyParam := info.Defs[fd.Type.Params.List[0].Names[0]]
		// variables holding hash(key)
		hashVars := map[types.Object]bool{}
		isHashOfKey := func(e ast.Expr) bool {
			e = unparen(e)
			if call, ok := e.(*ast.CallExpr); ok && len(call.Args) == 1 {
				if id, ok := unparen(call.Fun).(*ast.Ident); ok && info.Uses[id] == hashFn {
					if a, ok := unparen(call.Args[0]).(*ast.Ident); ok && info.Uses[a] == keyParam {
						return true
					}
				}
			}
			if id, ok := e.(*ast.Ident); ok && hashVars[info.Uses[id]] {
				return true
			}
			return false
		}
		inspectFunc(fd, func(m ast.Node) bool {
			if as, ok := m.(*ast.AssignStmt); ok && len(as.Lhs) == 1 && len(as.Rhs) == 1 && isHashOfKey(as.Rhs[0]) {
				if id, ok := as.Lhs[0].(*ast.Ident); ok {
					if o := info.Defs[id]; o != nil {
						hashVars[o] = true
					}
				}
			}
			return true
		})
		nIdx, nIdent := 0, 0
		inspectFunc(fd, func(m ast.Node) bool {
			switch x := m.(type) {
			case *ast.IndexExpr:
				if sel, ok := unparen(x.X).(*ast.SelectorExpr); ok && sel.Sel.Name == "table" {
					nIdx++
					c.Check(isHashOfKey(x.Index), rule, sprintf("%s/bucket-by-hash-of-key#%d", op, nIdx), x.Pos(), "%s indexes the table with %s instead of hash(key)", op, exprString(x.Index))
				}
			case *ast.KeyValueExpr:
				// map literal {hash: {...}} in Set
				if tv, ok := info.Types[x.Key]; ok && tv.Type != nil && tv.Type.String() == "uint32" {
					nIdx++
					c.Check(isHashOfKey(x.Key), rule, sprintf("%s/bucket-by-hash-of-key#%d", op, nIdx), x.Pos(), "%s keys the new table with %s instead of hash(key)", op, exprString(x.Key))
				}
			case *ast.CallExpr:
				if isFunc(callee(info, x), "go/types", "Identical") && len(x.Args) == 2 {
					nIdent++
					a, _ := unparen(x.Args[0]).(*ast.Ident)
					_, isEKey := isSelector(x.Args[1], "key")
					b, _ := unparen(x.Args[1]).(*ast.Ident)
					_, isEKey0 := isSelector(x.Args[0], "key")
					okArgs := (a != nil && info.Uses[a] == keyParam && isEKey) || (b != nil && info.Uses[b] == keyParam && isEKey0)
					c.Check(okArgs, rule, sprintf("%s/identical-key#%d", op, nIdent), x.Pos(), "%s must compare the parameter key with the entry's key by types.Identical", op)
					c.Check(tombstoneGuarded(fd, x), rule, sprintf("%s/tombstone-guard#%d", op, nIdent), x.Pos(), "%s compares a possibly deleted entry (key == nil) with types.Identical", op)
				}
			}
			return true
		})
		if nIdx == 0 || nIdent == 0 {
			c.Undecided(rule, op+"/shape", fd.Pos(), "no bucket access or no key comparison found in %s", op)
		}
	}
	// Delete: clears in place, no compaction, length-- exactly there
	if fd, _ := needDecl(c, rule, "typeutil:(*Map).Delete"); fd != nil {
		var clear, dec, compact bool
		var decInIdentical bool
		inspectFunc(fd, func(m ast.Node) bool {
			switch x := m.(type) {
			case *ast.AssignStmt:
				if len(x.Lhs) == 1 && len(x.Rhs) == 1 {
					if ix, ok := x.Lhs[0].(*ast.IndexExpr); ok {
						if lit := asLit(x.Rhs[0]); lit != nil && len(lit.Elts) == 0 && exprString(ix.X) == "bucket" {
							clear = true
						}
						if sel, ok := unparen(ix.X).(*ast.SelectorExpr); ok && sel.Sel.Name == "table" {
							compact = true // table[hash] = ... rewrites the bucket
						}
					}
				}
			case *ast.CallExpr:
				if id, ok := unparen(x.Fun).(*ast.Ident); ok && (id.Name == "append" || id.Name == "delete" || id.Name == "copy") {
					if _, isB := info.Uses[id].(*types.Builtin); isB {
						compact = true
					}
				}
			case *ast.SliceExpr:
				compact = true
			case *ast.IncDecStmt:
				if x.Tok == token.DEC && strings.HasSuffix(exprString(x.X), ".length") {
					dec = true
				}
			case *ast.IfStmt:
				hasIdent := false
				ast.Inspect(x.Cond, func(k ast.Node) bool {
					if call, ok := k.(*ast.CallExpr); ok && isFunc(callee(info, call), "go/types", "Identical") {
						hasIdent = true
					}
					return true
				})
				if hasIdent {
					for _, st := range x.Body.List {
						if ids, ok := st.(*ast.IncDecStmt); ok && ids.Tok == token.DEC && strings.HasSuffix(exprString(ids.X), ".length") {
							decInIdentical = true
						}
					}
				}
			}
			return true
		})
		c.Check(clear && !compact, rule, "Delete/clears-in-place", fd.Pos(), "Delete must overwrite the entry with the zero entry and never compact the bucket (iteration stability, tombstone reuse)")
		c.Check(dec && decInIdentical, rule, "Delete/length-decremented-on-clear", fd.Pos(), "length must be decremented exactly on the path that clears an entry")
		nDec := 0
		inspectFunc(fd, func(m ast.Node) bool {
			if ids, ok := m.(*ast.IncDecStmt); ok && strings.HasSuffix(exprString(ids.X), ".length") {
				nDec++
			}
			return true
		})
		c.Check(nDec == 1, rule, "Delete/length-once", fd.Pos(), "Delete changes length %d times", nDec)
	}
	// Set: length++ once, at the end; the replace path returns before it
	if fd, _ := needDecl(c, rule, "typeutil:(*Map).Set"); fd != nil {
		nInc, topLevel := 0, false
		inspectFunc(fd, func(m ast.Node) bool {
			if ids, ok := m.(*ast.IncDecStmt); ok && strings.HasSuffix(exprString(ids.X), ".length") {
				nInc++
				c.Check(ids.Tok == token.INC, rule, "Set/length-direction", ids.Pos(), "Set must increment length")
			}
			if as, ok := m.(*ast.AssignStmt); ok && len(as.Lhs) == 1 && strings.HasSuffix(exprString(as.Lhs[0]), ".length") {
				nInc += 10
			}
			return true
		})
		for _, st := range fd.Body.List {
			if ids, ok := st.(*ast.IncDecStmt); ok && strings.HasSuffix(exprString(ids.X), ".length") {
				topLevel = true
			}
		}
		c.Check(nInc == 1 && topLevel, rule, "Set/length-incremented-once-on-add", fd.Pos(), "length must be incremented exactly once, on the paths that add an entry")
		// the replace branch (Identical true) returns
		replaceReturns := false
		inspectFunc(fd, func(m ast.Node) bool {
			if is, ok := m.(*ast.IfStmt); ok {
				check := func(cond ast.Expr, body *ast.BlockStmt) {
					hasIdent := false
					ast.Inspect(cond, func(k ast.Node) bool {
						if call, ok := k.(*ast.CallExpr); ok && isFunc(callee(info, call), "go/types", "Identical") {
							hasIdent = true
						}
						return true
					})
					if hasIdent && endsInReturn(body) {
						replaceReturns = true
					}
				}
				check(is.Cond, is.Body)
				if el, ok := is.Else.(*ast.IfStmt); ok {
					check(el.Cond, el.Body)
				}
			}
			return true
		})
		c.Check(replaceReturns, rule, "Set/replace-path-returns", fd.Pos(), "replacing the value of an existing key must return before the length increment")
	}
	// Len nil-safe
	if fd, _ := needDecl(c, rule, "typeutil:(*Map).Len"); fd != nil {
		guard := false
		inspectFunc(fd, func(m ast.Node) bool {
			if is, ok := m.(*ast.IfStmt); ok {
				if be, ok := unparen(is.Cond).(*ast.BinaryExpr); ok && (be.Op == token.NEQ || be.Op == token.EQL) && exprString(be.Y) == "nil" {
					guard = true
				}
			}
			return true
		})
		c.Check(guard, rule, "Len/nil-safe", fd.Pos(), "Len of a nil map must be 0")
	}
	// the builtin-type table is reached only through At/Set
	gp := c.Pkg("")
	var btiField *types.Var
	if tn, ok := gp.Types.Scope().Lookup("CodeBuilder").(*types.TypeName); ok {
		st := tn.Type().Underlying().(*types.Struct)
		for i := 0; i < st.NumFields(); i++ {
			if st.Field(i).Name() == "btiMap" {
				btiField = st.Field(i)
			}
		}
	}
	if btiField == nil {
		c.Undecided(rule, "anchor/btiMap", token.NoPos, "builtin-type table field not found")
		return
	}
	nuse := 0
	for _, id := range usesOf(c, btiField) {
		fd := enclosingFunc(c, id.Pos())
		if fd == nil {
			continue
		}
		// parent must be a selector call .At/.Set or an assignment of the whole map
		okUse := false
		inspectFunc(fd, func(m ast.Node) bool {
			switch x := m.(type) {
			case *ast.CallExpr:
				if sel, ok := unparen(x.Fun).(*ast.SelectorExpr); ok {
					if inner, ok := unparen(sel.X).(*ast.SelectorExpr); ok && inner.Sel == id && (sel.Sel.Name == "At" || sel.Sel.Name == "Set") {
						okUse = true
					}
				}
			case *ast.AssignStmt:
				for _, l := range x.Lhs {
					if s, ok := l.(*ast.SelectorExpr); ok && s.Sel == id {
						okUse = true
					}
				}
			}
			return true
		})
		nuse++
		c.Check(okUse, rule, declName(c, fd)+"/btiMap-through-api", id.Pos(), "the builtin-type table must be accessed only through Map.At/Set")
	}
	c.Floor(rule, "uses of the builtin-type table", nuse, 2)
}

// tombstoneGuarded: the Identical call is `e.key != nil && Identical(...)` or sits in the else
// branch of `if e.key == nil`.
func tombstoneGuarded(fd *ast.FuncDecl, call *ast.CallExpr) bool {
	ok := false
	inspectFunc(fd, func(m ast.Node) bool {
		is, isIf := m.(*ast.IfStmt)
		if !isIf {
			return true
		}
		// case 1: cond = A && B with A `x.key != nil` and call inside B
		if be, isB := unparen(is.Cond).(*ast.BinaryExpr); isB && be.Op == token.LAND {
			if g, isG := unparen(be.X).(*ast.BinaryExpr); isG && g.Op == token.NEQ && strings.HasSuffix(exprString(g.X), ".key") && exprString(g.Y) == "nil" {
				if be.Y.Pos() <= call.Pos() && call.End() <= be.Y.End() {
					ok = true
				}
			}
		}
		// case 2: if x.key == nil {...} else if Identical(...)
		if g, isG := unparen(is.Cond).(*ast.BinaryExpr); isG && g.Op == token.EQL && strings.HasSuffix(exprString(g.X), ".key") && exprString(g.Y) == "nil" {
			if is.Else != nil && is.Else.Pos() <= call.Pos() && call.End() <= is.Else.End() {
				ok = true
			}
		}
		return true
	})
	return ok
}

// R19.4: inside a generic signature, type parameters are hashed by index (identical signatures may name
// their parameters differently); outside, by identity. The mode flag therefore has to be switched on before
// ANY component of the generic signature is hashed - constraints included, since a constraint can mention
// the signature's own parameters ([S ~[]E, E any]). In hasher.hash, in the block that handles a non-empty
// type parameter list, the store of the flag precedes every recursive hash call of that block.
func r194(c *fw.Ctx) {
	const rule = "R19.4"
	fd, p := needDecl(c, rule, "typeutil:hasher.hash")
	if fd == nil {
		return
	}
	info := p.TypesInfo
	isHashCall := func(call *ast.CallExpr) bool {
		fn, _ := callee(info, call).(*types.Func)
		return fn != nil && fn.Pkg() == p.Types && strings.HasPrefix(fn.Name(), "hash")
	}
	n := 0
	ast.Inspect(fd.Body, func(m ast.Node) bool {
		blk, ok := m.(*ast.BlockStmt)
		if !ok {
			return true
		}
		var flagPos token.Pos
		for _, st := range blk.List {
			if as, ok := st.(*ast.AssignStmt); ok && len(as.Lhs) == 1 {
				if se, ok := unparen(as.Lhs[0]).(*ast.SelectorExpr); ok {
					if fv, ok := info.Uses[se.Sel].(*types.Var); ok && fv.IsField() && fv.Name() == "inGenericSig" {
						if v := constOf(info, as.Rhs[0]); v != nil && v.String() == "true" {
							flagPos = as.Pos()
						}
					}
				}
			}
		}
		if flagPos == token.NoPos {
			return true
		}
		n++
		first := token.NoPos
		for _, st := range blk.List {
			ast.Inspect(st, func(k ast.Node) bool {
				if call, ok := k.(*ast.CallExpr); ok && isHashCall(call) && (first == token.NoPos || call.Pos() < first) {
					first = call.Pos()
				}
				return true
			})
		}
		c.Check(first == token.NoPos || flagPos < first, rule, sprintf("hash/generic-mode-before-components#%d", n), flagPos,
			"the by-index mode for type parameters is switched on after a component of the generic signature was already hashed (first hash call at %s): a constraint that mentions the signature's own type parameters is hashed by identity, so identical signatures with renamed parameters hash differently", c.Position(first))
		return true
	})
	// and the flag is consulted where type parameters are hashed
	c.Floor(rule, "generic-mode switches", n, 1)
}

// R19.5: a bucket scan that looks for an identical key looks at every entry: the loop may be left early
// only by returning on a match. Leaving it at the first tombstone (break) lets Set add a second entry for
// a key that is stored further on in the bucket.
func r195(c *fw.Ctx) {
	const rule = "R19.5"
	for _, name := range []string{"typeutil:(*Map).Set", "typeutil:(*Map).At", "typeutil:(*Map).Delete"} {
		fd, p := needDecl(c, rule, name)
		if fd == nil {
			continue
		}
		info := p.TypesInfo
		nLoops := 0
		ast.Inspect(fd.Body, func(m ast.Node) bool {
			rs, ok := m.(*ast.RangeStmt)
			if !ok {
				return true
			}
			var ident *ast.CallExpr
			ast.Inspect(rs.Body, func(k ast.Node) bool {
				if call, ok := k.(*ast.CallExpr); ok && isFunc(callee(info, call), "go/types", "Identical") {
					ident = call
				}
				return true
			})
			if ident == nil {
				return true
			}
			nLoops++
			bad := ""
			var badPos token.Pos
			var stack []ast.Node
			ast.Inspect(rs.Body, func(k ast.Node) bool {
				if k == nil {
					stack = stack[:len(stack)-1]
					return true
				}
				stack = append(stack, k)
				switch x := k.(type) {
				case *ast.BranchStmt:
					if x.Tok == token.BREAK || x.Tok == token.GOTO {
						bad, badPos = "the scan is left by "+x.Tok.String(), x.Pos()
					}
				case *ast.ReturnStmt:
					// must be inside an if whose condition contains the Identical test
					guarded := false
					for _, anc := range stack {
						if is, ok := anc.(*ast.IfStmt); ok && is.Cond.Pos() <= ident.Pos() && ident.End() <= is.Cond.End() && is.Body.Pos() <= x.Pos() && x.End() <= is.Body.End() {
							guarded = true
						}
					}
					if !guarded {
						bad, badPos = "the scan returns without a match", x.Pos()
					}
				}
				return true
			})
			if badPos == token.NoPos {
				badPos = rs.Pos()
			}
			c.Check(bad == "", rule, strings.TrimPrefix(name, "typeutil:")+"/scan-covers-whole-bucket", badPos,
				"%s before every entry of the bucket was compared with the key: an identical key stored after that point is not found (Set would add a duplicate, Len/Keys/At disagree)", bad)
			return true
		})
		if nLoops == 0 {
			c.Undecided(rule, strings.TrimPrefix(name, "typeutil:")+"/scan", fd.Pos(), "no bucket scan with a types.Identical comparison found")
		}
	}
}
