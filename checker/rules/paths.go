package rules

import (
	"go/ast"
	"go/token"
	"go/types"

	"golang.org/x/tools/go/cfg"
)

// E3 (AST flavour): acyclic path enumeration over go/cfg. A loop body is taken zero
// or one time (each block at most once per path). Paths ending in panic (or a call of
// a never-returning error reporter) are flagged as abnormal.

type pathFact struct {
	Cond ast.Expr
	Val  bool
	At   int // number of path nodes executed when the condition was evaluated (the condition is node At-1)
}

type cfgPath struct {
	Nodes    []ast.Node
	Facts    []pathFact
	Abnormal bool // ends in panic / never-returning call
}

// neverReturns reports calls that do not return: panic, log.Panic*, log.Fatal*, os.Exit and the
// builder's panicCodeError* helpers.
func neverReturns(info *types.Info) func(call *ast.CallExpr) bool {
	return func(call *ast.CallExpr) bool {
		if id, ok := unparen(call.Fun).(*ast.Ident); ok && id.Name == "panic" {
			if _, isB := info.Uses[id].(*types.Builtin); isB {
				return false
			}
		}
		if fn, ok := callee(info, call).(*types.Func); ok && fn != nil {
			switch fn.Name() {
			case "panicCodeError", "panicCodeErrorf", "fatal", "shouldNoResults":
				return false
			case "Panic", "Panicf", "Panicln", "Fatal", "Fatalf", "Fatalln":
				if fn.Pkg() != nil && fn.Pkg().Path() == "log" {
					return false
				}
			case "Exit":
				if fn.Pkg() != nil && fn.Pkg().Path() == "os" {
					return false
				}
			}
		}
		return true
	}
}

const maxPaths = 4096

// enumPaths enumerates the acyclic entry-to-exit paths of body.
func enumPaths(info *types.Info, body *ast.BlockStmt) (paths []cfgPath, truncated bool) {
	return enumPathsN(info, body, 1)
}

// enumPathsN lets every block occur up to maxVisits times on a path (2 = loops are taken zero, one or
// two times).
func enumPathsN(info *types.Info, body *ast.BlockStmt, maxVisits int) (paths []cfgPath, truncated bool) {
	mayReturn := neverReturns(info)
	g := cfg.New(body, mayReturn)
	if len(g.Blocks) == 0 {
		return nil, false
	}
	var walk func(b *cfg.Block, nodes []ast.Node, facts []pathFact, visited map[int32]int)
	walk = func(b *cfg.Block, nodes []ast.Node, facts []pathFact, visited map[int32]int) {
		if len(paths) >= maxPaths {
			truncated = true
			return
		}
		if visited[b.Index] >= maxVisits {
			return // back edge: the loop was already taken on this path
		}
		visited[b.Index]++
		defer func() { visited[b.Index]-- }()
		nodes = append(nodes[:len(nodes):len(nodes)], b.Nodes...)
		abnormal := false
		for _, n := range b.Nodes {
			ast.Inspect(n, func(m ast.Node) bool {
				if _, isLit := m.(*ast.FuncLit); isLit {
					return false
				}
				if call, ok := m.(*ast.CallExpr); ok && !mayReturn(call) {
					abnormal = true
				}
				return true
			})
		}
		if len(b.Succs) == 0 || abnormal {
			paths = append(paths, cfgPath{Nodes: nodes, Facts: facts, Abnormal: abnormal})
			return
		}
		if len(b.Succs) == 2 && len(b.Nodes) > 0 {
			if cond, ok := b.Nodes[len(b.Nodes)-1].(ast.Expr); ok {
				walk(b.Succs[0], nodes, append(facts[:len(facts):len(facts)], pathFact{cond, true, len(nodes)}), visited)
				walk(b.Succs[1], nodes, append(facts[:len(facts):len(facts)], pathFact{cond, false, len(nodes)}), visited)
				return
			}
		}
		any := false
		for _, s := range b.Succs {
			if visited[s.Index] < maxVisits {
				any = true
				walk(s, nodes, facts, visited)
			}
		}
		if !any {
			// only back edges remain: cannot happen on an exit path; drop
		}
	}
	walk(g.Blocks[0], nil, nil, map[int32]int{})
	return paths, truncated
}

// callsIn lists the call expressions inside the nodes of a path, in order (not descending
// into function literals except deferred ones, which run at exit).
func callsIn(nodes []ast.Node) []*ast.CallExpr {
	var r, deferred []*ast.CallExpr
	for _, n := range nodes {
		if ds, ok := n.(*ast.DeferStmt); ok {
			if fl, ok := ds.Call.Fun.(*ast.FuncLit); ok {
				ast.Inspect(fl.Body, func(m ast.Node) bool {
					if call, ok := m.(*ast.CallExpr); ok {
						deferred = append(deferred, call)
					}
					return true
				})
			} else {
				deferred = append(deferred, ds.Call)
			}
			continue
		}
		var local []*ast.CallExpr
		ast.Inspect(n, func(m ast.Node) bool {
			if _, isLit := m.(*ast.FuncLit); isLit {
				return false
			}
			if call, ok := m.(*ast.CallExpr); ok {
				local = append(local, call)
			}
			return true
		})
		// a call completes after its arguments: order by end position within the node
		sortCalls(local)
		r = append(r, local...)
	}
	return append(r, deferred...)
}

func sortCalls(cs []*ast.CallExpr) {
	for i := 1; i < len(cs); i++ {
		for j := i; j > 0 && callOrderKey(cs[j]) < callOrderKey(cs[j-1]); j-- {
			cs[j], cs[j-1] = cs[j-1], cs[j]
		}
	}
}

// a call completes after its arguments: order by end position
func callOrderKey(c *ast.CallExpr) token.Pos { return c.End() }
