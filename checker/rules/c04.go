package rules

import (
	"go/ast"
	"go/constant"
	"go/token"
	"go/types"
	"strings"

	"gogenvet/fw"
)

func init() {
	register("C04", Prop{
		NeedSSA: false,
		Run:     runC04,
		Explanation: "R4.1 exactness flags are honoured: every constant.{Int64Val,Uint64Val,Float64Val,Float32Val} whose result feeds a constant, a shift count, a length or an index has its `exact` result tested (text of float-kinded literals exempt: Go rounds the same way); " +
			"R4.2 the constant-builtin dispatch table is well-typed and well-named: the static type of each fn equals the function type doBuiltinCall asserts for its narg, and each name maps to the library function of that meaning (min folds with <, max with >); " +
			"R4.3 a constant crossing a conversion depends on the target type (a plain copy of the operand's CVal carries string(65) as 65 and folds int8(200)); " +
			"R4.4 integer division of constants truncates: the folding of `/` on two integer operands uses go/constant's integer-division token; " +
			"R4.5 the division-by-zero test covers every dividing operator (/ % /= %=) before the operation is folded or emitted",
		NotDecided: "the folded values themselves (go/constant is trusted for arithmetic); typed constant overflow; len/cap constness",
	})
}

func runC04(c *fw.Ctx) {
	r41(c)
	r42(c)
	r43(c)
	r44(c)
	r45(c)
	kindClassifiers(c, "R4.6")
	scopedOverrides(c, "R4.7", 1)
}

func r41(c *fw.Ctx) {
	const rule = "R4.1"
	n := 0
	for _, fd := range c.Decls() {
		p := c.PkgOfDecl(fd)
		if fd.Body == nil || strings.HasPrefix(p.PkgPath, fw.Mod+"/internal/go/") {
			continue
		}
		info := p.TypesInfo
		fname := declName(c, fd)
		inspectFunc(fd, func(m ast.Node) bool {
			var lhs []ast.Expr
			var call *ast.CallExpr
			switch s := m.(type) {
			case *ast.AssignStmt:
				if len(s.Rhs) == 1 && len(s.Lhs) == 2 {
					call, _ = unparen(s.Rhs[0]).(*ast.CallExpr)
					lhs = s.Lhs
				}
			}
			if call == nil {
				return true
			}
			fn, ok := callee(info, call).(*types.Func)
			if !ok || fn == nil || fn.Pkg() == nil || fn.Pkg().Path() != "go/constant" {
				return true
			}
			switch fn.Name() {
			case "Int64Val", "Uint64Val", "Float64Val", "Float32Val":
			default:
				return true
			}
			n++
			key := fname + "/" + fn.Name()
			flag, _ := lhs[1].(*ast.Ident)
			if flag == nil || flag.Name == "_" {
				// exempt: the value only becomes the text of a float-kinded literal
				if strings.HasPrefix(fn.Name(), "Float") && fd.Name.Name == "floatVal" {
					c.OK(rule, key, call.Pos(), "rounded value is printed as the text of a float-kinded literal, where Go rounds the same way")
					return true
				}
				c.Violate(rule, key, call.Pos(), "the exactness flag of constant.%s is discarded: a value that does not fit is silently truncated", fn.Name())
				return true
			}
			obj := info.Defs[flag]
			if obj == nil {
				obj = info.Uses[flag]
			}
			tested := false
			inspectFunc(fd, func(k ast.Node) bool {
				if is, ok := k.(*ast.IfStmt); ok {
					ast.Inspect(is.Cond, func(q ast.Node) bool {
						if id, ok := q.(*ast.Ident); ok && info.Uses[id] == obj {
							tested = true
						}
						return true
					})
				}
				return true
			})
			c.Check(tested, rule, key, call.Pos(), "the exactness flag of constant.%s is never tested", fn.Name())
			return true
		})
	}
	c.Floor(rule, "exact-value extractions", n, 3)
}

func r42(c *fw.Ctx) {
	const rule = "R4.2"
	p := c.Pkg("")
	info := p.TypesInfo
	t := extractTable(p, "builtinFns")
	if t.Err != "" {
		c.Undecided(rule, "table/builtinFns", token.NoPos, "cannot read the table: %s", t.Err)
		return
	}
	// asserted function types per narg in doBuiltinCall
	asserted := map[int64]types.Type{}
	if fd, _ := needDecl(c, rule, "doBuiltinCall"); fd != nil {
		inspectFunc(fd, func(m ast.Node) bool {
			cc, ok := m.(*ast.CaseClause)
			if !ok || len(cc.List) != 1 {
				return true
			}
			k, ok := constInt(info, cc.List[0])
			if !ok {
				return true
			}
			for _, st := range cc.Body {
				ast.Inspect(st, func(q ast.Node) bool {
					if ta, ok := q.(*ast.TypeAssertExpr); ok && ta.Type != nil && strings.HasSuffix(exprString(ta.X), ".fn") {
						asserted[k] = info.TypeOf(ta.Type)
					}
					return true
				})
			}
			return true
		})
	}
	c.Floor(rule, "dispatch arities", len(asserted), 3)
	meaning := map[string]string{"complex": "makeComplex", "real": "go/constant.Real", "imag": "go/constant.Imag", "min": "minConst", "max": "maxConst"}
	rows := 0
	for _, r := range t.Rows {
		name := constant.StringVal(r.Key)
		lit := asLit(r.Val)
		if lit == nil {
			c.Undecided(rule, "builtinFns/"+name, r.Val.Pos(), "row not a literal")
			continue
		}
		f := structFields(info, lit)
		narg, ok := constInt(info, f["narg"])
		if !ok || f["fn"] == nil {
			c.Undecided(rule, "builtinFns/"+name, r.Val.Pos(), "row fields not understood")
			continue
		}
		rows++
		want, has := asserted[narg]
		got := info.TypeOf(f["fn"])
		c.Check(has && got != nil && types.Identical(got, want), rule, "builtinFns/"+name+"/signature", r.Val.Pos(),
			"%s is registered with narg=%d, for which doBuiltinCall asserts %v, but its function has type %v: the first constant %s(...) panics", name, narg, want, got, name)
		// the function of that meaning
		obj := types.Object(nil)
		switch e := unparen(f["fn"]).(type) {
		case *ast.Ident:
			obj = info.Uses[e]
		case *ast.SelectorExpr:
			obj = info.Uses[e.Sel]
		}
		gotName := ""
		if obj != nil {
			gotName = obj.Name()
			if obj.Pkg() != nil && obj.Pkg().Path() != fw.Mod {
				gotName = obj.Pkg().Path() + "." + gotName
			}
		}
		if w, ok := meaning[name]; ok {
			c.Check(gotName == w, rule, "builtinFns/"+name+"/meaning", r.Val.Pos(), "constant %s is folded by %s, expected %s", name, gotName, w)
		} else {
			c.Undecided(rule, "builtinFns/"+name+"/meaning", r.Val.Pos(), "no authored meaning for constant builtin %s", name)
		}
	}
	c.Floor(rule, "dispatch rows", rows, 5)
	// min folds with <, max with >; the fold keeps v when Compare(v, op, result)
	for fnName, tok := range map[string]token.Token{"minConst": token.LSS, "maxConst": token.GTR} {
		fd, _ := needDecl(c, rule, fnName)
		if fd == nil {
			continue
		}
		ok := false
		inspectFunc(fd, func(m ast.Node) bool {
			if call, isC := m.(*ast.CallExpr); isC && isFunc(callee(info, call), fw.Mod, "minMaxConst") && len(call.Args) == 2 {
				if v, isK := constInt(info, call.Args[1]); isK && token.Token(v) == tok {
					ok = true
				}
			}
			return true
		})
		c.Check(ok, rule, fnName+"/comparison", fd.Pos(), "%s must fold with %s", fnName, tok)
	}
	if fd, _ := needDecl(c, rule, "minMaxConst"); fd != nil {
		ok := false
		inspectFunc(fd, func(m ast.Node) bool {
			is, isIf := m.(*ast.IfStmt)
			if !isIf {
				return true
			}
			call, isC := unparen(is.Cond).(*ast.CallExpr)
			if !isC || !isFunc(callee(info, call), "go/constant", "Compare") || len(call.Args) != 3 {
				return true
			}
			// Compare(v, op, result) { result = v }
			if len(is.Body.List) == 1 {
				if as, isA := is.Body.List[0].(*ast.AssignStmt); isA && len(as.Lhs) == 1 && len(as.Rhs) == 1 &&
					exprString(as.Lhs[0]) == exprString(call.Args[2]) && exprString(as.Rhs[0]) == exprString(call.Args[0]) && exprString(call.Args[1]) == "op" {
					ok = true
				}
			}
			return true
		})
		c.Check(ok, rule, "minMaxConst/fold", fd.Pos(), "the fold must replace the running result by v exactly when v <op> result")
	}
	if fd, _ := needDecl(c, rule, "makeComplex"); fd != nil {
		ok := false
		inspectFunc(fd, func(m ast.Node) bool {
			if call, isC := m.(*ast.CallExpr); isC && isFunc(callee(info, call), "go/constant", "BinaryOp") && len(call.Args) == 3 {
				if v, isK := constInt(info, call.Args[1]); isK && token.Token(v) == token.ADD && exprString(call.Args[0]) == "re" {
					if inner, isI := unparen(call.Args[2]).(*ast.CallExpr); isI && isFunc(callee(info, inner), "go/constant", "MakeImag") && exprString(inner.Args[0]) == "im" {
						ok = true
					}
				}
			}
			return true
		})
		c.Check(ok, rule, "makeComplex/definition", fd.Pos(), "complex(re, im) must fold to re + im*i")
	}
}

func r43(c *fw.Ctx) {
	const rule = "R4.3"
	fd, p := needDecl(c, rule, "matchTypeCast")
	if fd == nil {
		return
	}
	info := p.TypesInfo
	target := info.Defs[fd.Type.Params.List[1].Names[0]] // typ
	n, nCopy := 0, 0
	inspectFunc(fd, func(m ast.Node) bool {
		as, ok := m.(*ast.AssignStmt)
		if !ok || len(as.Lhs) != 1 || len(as.Rhs) != 1 {
			return true
		}
		l, ok := isSelector(as.Lhs[0], "CVal")
		if !ok || !isElemPtr(info.TypeOf(l)) {
			return true
		}
		r, isCopy := isSelector(as.Rhs[0], "CVal")
		n++
		// keyed by role, not by the names of locals: result.CVal = operand.CVal
		if isCopy {
			nCopy++
		}
		key := sprintf("matchTypeCast/result.CVal=operand.CVal#%d", nCopy)
		if !isCopy {
			key = sprintf("matchTypeCast/result.CVal=computed#%d", n-nCopy)
			c.OK(rule, key, as.Pos(), "computed value")
			return true
		}
		_ = r
		// plain copy: is it guarded by something that depends on the target type?
		guarded := false
		inspectFunc(fd, func(k ast.Node) bool {
			is, isIf := k.(*ast.IfStmt)
			if !isIf || !(is.Body.Pos() <= as.Pos() && as.End() <= is.Body.End()) {
				return true
			}
			ast.Inspect(is.Cond, func(q ast.Node) bool {
				if call, isC := q.(*ast.CallExpr); isC {
					if fn, okF := callee(info, call).(*types.Func); okF && fn != nil {
						switch fn.Name() {
						case "checkUntypedType", "representable", "Representable", "ToInt", "ToFloat":
							guarded = true
						}
					}
				}
				if id, isId := q.(*ast.Ident); isId && info.Uses[id] == target {
					guarded = true
				}
				return true
			})
			return true
		})
		c.Check(guarded, rule, key, as.Pos(), "the conversion result carries the operand's constant unchanged, whatever the target type: string(65) keeps 65 (Go: \"A\") and int8(200) is folded although Go rejects it")
		return true
	})
	c.Floor(rule, "constant propagation sites of conversions", n, 1)
}

func r44(c *fw.Ctx) {
	const rule = "R4.4"
	fd, p := needDecl(c, rule, "binaryOp")
	if fd == nil {
		return
	}
	info := p.TypesInfo
	// if tok == token.QUO && isNormalInt(a) && isNormalInt(b) { tok = token.QUO_ASSIGN }
	ok := false
	inspectFunc(fd, func(m ast.Node) bool {
		is, isIf := m.(*ast.IfStmt)
		if !isIf {
			return true
		}
		cond := exprString(is.Cond)
		hasQuo := false
		ast.Inspect(is.Cond, func(q ast.Node) bool {
			if v, isK := constInt(info, exprOf(q)); isK && token.Token(v) == token.QUO {
				hasQuo = true
			}
			return true
		})
		ints := strings.Count(cond, "isNormalInt(")
		sets := false
		for _, st := range is.Body.List {
			if as, isA := st.(*ast.AssignStmt); isA && len(as.Rhs) == 1 {
				if v, isK := constInt(info, as.Rhs[0]); isK && token.Token(v) == token.QUO_ASSIGN {
					sets = true
				}
			}
		}
		if hasQuo && ints == 2 && sets {
			ok = true
		}
		return true
	})
	c.Check(ok, rule, "binaryOp/integer-division", fd.Pos(), "folding `/` on two integer operands must use go/constant's integer division (token.QUO_ASSIGN); otherwise 7/2 folds to the exact fraction 7/2")
}

func exprOf(n ast.Node) ast.Expr {
	e, _ := n.(ast.Expr)
	return e
}

func r45(c *fw.Ctx) {
	const rule = "R4.5"
	p := c.Pkg("")
	info := p.TypesInfo
	fn := c.LookupFunc("checkDivisionByZero")
	if fn == nil {
		c.Undecided(rule, "anchor/checkDivisionByZero", token.NoPos, "division-by-zero test not found")
		return
	}
	guarded := map[token.Token]token.Pos{}
	sites := 0
	for _, id := range usesOf(c, fn) {
		fd := enclosingFunc(c, id.Pos())
		if fd == nil {
			continue
		}
		sites++
		inspectFunc(fd, func(m ast.Node) bool {
			is, isIf := m.(*ast.IfStmt)
			if !isIf || !(is.Body.Pos() <= id.Pos() && id.End() <= is.Body.End()) {
				return true
			}
			ast.Inspect(is.Cond, func(q ast.Node) bool {
				if be, isB := q.(*ast.BinaryExpr); isB && be.Op == token.EQL {
					if v, isK := constInt(info, be.Y); isK {
						if t := info.TypeOf(be.Y); t != nil && strings.HasSuffix(t.String(), "token.Token") {
							guarded[token.Token(v)] = be.Pos()
						}
					}
				}
				return true
			})
			return true
		})
	}
	c.Floor(rule, "division-by-zero test sites", sites, 2)
	for _, tok := range []token.Token{token.QUO, token.REM, token.QUO_ASSIGN, token.REM_ASSIGN} {
		_, ok := guarded[tok]
		c.Check(ok, rule, "divides/"+tok.String(), fn.Pos(), "the operator %s divides, but no division-by-zero test is made for it: a constant `x %s 0` is folded by go/constant (run-time integer divide by zero) or emitted although Go rejects it", tok, tok)
	}
}
