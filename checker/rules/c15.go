package rules

import (
	"go/ast"
	"go/token"
	"go/types"
	"strings"

	"golang.org/x/tools/go/callgraph"
	"golang.org/x/tools/go/packages"
	"golang.org/x/tools/go/ssa"

	"gogenvet/fw"
)

func init() {
	register("C15", Prop{
		NeedSSA: true,
		Run:     runC15,
		Explanation: "Enumeration argument: single-goroutine Go code is deterministic unless it consults map iteration order, select, goroutine interleaving, time, randomness, process/environment state, addresses or external I/O. " +
			"R15.1 every iteration over a map (range over a map-typed expression, sync.Map.Range, typeutil.Map.Iterate/Keys/String) in the analysed packages is classified: order-insensitive (every effect of the body is commutative: keyed map/scope updates, |= &= += on flags and integers, constant flag stores, constant returns, append to a slice that is sorted before any other use), or leaking to a named sink (error handler, user callback, cache file — outside the property's sink: emitted files), or leaking to emitted syntax (violation); " +
			"R15.2 no go statement, select, channel operation, time.*, math/rand, crypto/rand, os.Getpid/Getenv/Hostname, maphash-derived value, %p verb or pointer-to-integer conversion is reachable from the builder API and WriteTo, except the named, reasoned exceptions (typeutil's pointer hash: bucket order unobservable; the printer's sync.Pool: pooled object fully overwritten before use)",
		NotDecided: "determinism of the importer's `go list` subprocess and of user callbacks",
	})
}

func runC15(c *fw.Ctx) {
	r151(c)
	r152(c)
}

type mapIterSite struct {
	p    *packages.Package
	fd   *ast.FuncDecl
	pos  token.Pos
	what string // "range m.x" / "sync.Map.Range" / "typeutil.Map.Iterate"
	body *ast.BlockStmt
	key  types.Object
	val  types.Object
	loop ast.Node
}

func mapIterSites(c *fw.Ctx) []mapIterSite {
	var r []mapIterSite
	for _, fd := range c.Decls() {
		p := c.PkgOfDecl(fd)
		info := p.TypesInfo
		if fd.Body == nil {
			continue
		}
		ast.Inspect(fd.Body, func(n ast.Node) bool {
			switch x := n.(type) {
			case *ast.RangeStmt:
				t := info.TypeOf(x.X)
				if t == nil {
					return true
				}
				if _, ok := t.Underlying().(*types.Map); ok {
					s := mapIterSite{p: p, fd: fd, pos: x.Pos(), what: "range " + exprString(x.X), body: x.Body, loop: x}
					if id, ok := x.Key.(*ast.Ident); ok && id.Name != "_" {
						s.key = info.Defs[id]
						if s.key == nil {
							s.key = info.Uses[id]
						}
					}
					if id, ok := x.Value.(*ast.Ident); ok && id.Name != "_" {
						s.val = info.Defs[id]
						if s.val == nil {
							s.val = info.Uses[id]
						}
					}
					r = append(r, s)
				}
			case *ast.CallExpr:
				fn, ok := callee(info, x).(*types.Func)
				if !ok || fn == nil {
					return true
				}
				name := ""
				if fn.Pkg() != nil && fn.Pkg().Path() == "sync" && shortName(fn) == "Map.Range" {
					name = "sync.Map.Range"
				}
				if fn.Pkg() != nil && fn.Pkg().Path() == fw.Mod+"/typeutil" {
					switch shortName(fn) {
					case "Map.Iterate", "Map.Keys", "Map.String", "Map.KeysString", "Map.toString":
						name = "typeutil." + shortName(fn)
					}
				}
				if name == "" {
					return true
				}
				s := mapIterSite{p: p, fd: fd, pos: x.Pos(), what: name, loop: x}
				if len(x.Args) == 1 {
					if fl, ok := x.Args[0].(*ast.FuncLit); ok {
						s.body = fl.Body
						ps := fl.Type.Params.List
						var objs []types.Object
						for _, f := range ps {
							for _, nm := range f.Names {
								objs = append(objs, info.Defs[nm])
							}
						}
						if len(objs) > 0 {
							s.key = objs[0]
						}
						if len(objs) > 1 {
							s.val = objs[1]
						}
					}
				}
				r = append(r, s)
			}
			return true
		})
	}
	return r
}

// frozen classification of sites whose body the automatic classifier cannot prove commutative.
// key: function + "/" + what. One symbol, one reason.
var mapOrderTable = map[string]struct{ sink, reason string }{
	"(*funcBodyCtx).checkLabels/range p.labels":        {"error-handler", "reports unused labels through the error handler in map order; messages, not files (outside the property's sink)"},
	"(*Package).ForEachFile/range p.files":             {"user-callback", "calls the user's callback per file in map order; what the callback does is the caller's"},
	"typeutil:(*Map).Iterate/range m.table":            {"api-result", "bucket order is exposed to the caller of Iterate; R15.2 checks that the builder never calls Iterate/Keys/String"},
	"typeutil:(*Map).Keys/typeutil.Map.Iterate":        {"api-result", "see Iterate"},
	"typeutil:(*Map).toString/typeutil.Map.Iterate":    {"api-result", "see Iterate"},
	"typeutil:(*Map).String/typeutil.Map.toString":     {"api-result", "see Iterate"},
	"typeutil:(*Map).KeysString/typeutil.Map.toString": {"api-result", "see Iterate"},
	"InitXGoPackageEx/range overloads":                 {"imported-scope", "registers one overload object per (type, name) key: scope inserts are keyed by name; overload methods are appended to the imported type's method list, whose order no emitted syntax depends on (methods are looked up by name; gogen never prints imported types' method sets)"},
	"InitXGoPackageEx/range onameds":                   {"imported-scope", "inserts one overload-named object per name into the imported package's scope (keyed); the debug log line is not a file"},
	"packages/cache:(*Impl).Save/sync.Map.Range":       {"cache-file", "the cache file lists entries in map order; it is re-read into a map (order-free) and is not a generated package file"},
}

func r151(c *fw.Ctx) {
	const rule = "R15.1"
	sites := mapIterSites(c)
	c.Floor(rule, "map iteration sites", len(sites), 8)
	seen := map[string]int{}
	for _, s := range sites {
		fname := declName(c, s.fd)
		key := fname + "/" + s.what
		seen[key]++
		okey := key
		if seen[key] > 1 {
			okey = sprintf("%s#%d", key, seen[key])
		}
		if s.body == nil {
			if t, ok := mapOrderTable[key]; ok {
				c.OK(rule, okey, s.pos, "order reaches sink %q: %s", t.sink, t.reason)
				continue
			}
			c.Violate(rule, okey, s.pos, "map iteration through %s with an opaque callback: order may reach the output", s.what)
			continue
		}
		leaks := classifyLoopBody(c, s)
		if len(leaks) == 0 {
			c.OK(rule, okey, s.pos, "order-insensitive: every effect of the loop body is commutative")
			continue
		}
		if t, ok := mapOrderTable[key]; ok {
			c.OK(rule, okey, s.pos, "order reaches sink %q (%s): %s", t.sink, strings.Join(leaks, "; "), t.reason)
			continue
		}
		c.Violate(rule, okey, s.pos, "map iteration order leaks: %s — identical builds may produce different output", strings.Join(leaks, "; "))
	}
}

// classifyLoopBody returns the order-sensitive effects of a map-iteration body.
func classifyLoopBody(c *fw.Ctx, s mapIterSite) []string {
	info := s.p.TypesInfo
	var leaks []string
	// variables declared inside the body are per-iteration temporaries
	local := map[types.Object]bool{}
	ast.Inspect(s.body, func(n ast.Node) bool {
		switch x := n.(type) {
		case *ast.AssignStmt:
			if x.Tok == token.DEFINE {
				for _, l := range x.Lhs {
					if id, ok := l.(*ast.Ident); ok {
						local[info.Defs[id]] = true
					}
				}
			}
		case *ast.RangeStmt:
			for _, e := range []ast.Expr{x.Key, x.Value} {
				if id, ok := e.(*ast.Ident); ok && info.Defs[id] != nil {
					local[info.Defs[id]] = true
				}
			}
		case *ast.ValueSpec:
			for _, nm := range x.Names {
				local[info.Defs[nm]] = true
			}
		}
		return true
	})
	isLocal := func(e ast.Expr) bool {
		if id, ok := unparen(e).(*ast.Ident); ok {
			o := info.Uses[id]
			if o == nil {
				o = info.Defs[id]
			}
			return local[o] || id.Name == "_"
		}
		return false
	}
	var walk func(n ast.Node)
	walk = func(n ast.Node) {
		ast.Inspect(n, func(m ast.Node) bool {
			switch x := m.(type) {
			case *ast.FuncLit:
				return false
			case *ast.AssignStmt:
				for i, l := range x.Lhs {
					if isLocal(l) {
						continue
					}
					switch lt := unparen(l).(type) {
					case *ast.IndexExpr:
						if t := info.TypeOf(lt.X); t != nil {
							if _, isMap := t.Underlying().(*types.Map); isMap {
								continue // keyed update
							}
						}
						leaks = append(leaks, "positional store "+exprString(l))
					default:
						switch x.Tok {
						case token.OR_ASSIGN, token.AND_ASSIGN, token.ADD_ASSIGN, token.XOR_ASSIGN:
							if t := info.TypeOf(l); t != nil {
								if b, ok := t.Underlying().(*types.Basic); ok && b.Info()&(types.IsInteger|types.IsBoolean) != 0 {
									continue
								}
							}
							leaks = append(leaks, "non-commutative update "+exprString(l)+" "+x.Tok.String())
						case token.ASSIGN, token.DEFINE:
							if i < len(x.Rhs) {
								if v := constOf(info, x.Rhs[i]); v != nil {
									continue // flag := constant
								}
								// s = append(s, ...) with s sorted afterwards
								if call, ok := unparen(x.Rhs[i]).(*ast.CallExpr); ok {
									if id, ok := unparen(call.Fun).(*ast.Ident); ok && id.Name == "append" && len(call.Args) > 0 && exprString(call.Args[0]) == exprString(l) {
										if sortedAfter(info, s.fd, s.loop, l) {
											if why := sortNotTotal(info, s.fd, s.loop, l, call); why != "" {
												leaks = append(leaks, "append to "+exprString(l)+" sorted by a key that does not determine the order of what is emitted: "+why)
											}
											continue
										}
										leaks = append(leaks, "append to "+exprString(l)+" which is not sorted before use")
										continue
									}
								}
							}
							leaks = append(leaks, "last-writer-wins store "+exprString(l))
						default:
							leaks = append(leaks, "update "+exprString(l)+" "+x.Tok.String())
						}
					}
				}
			case *ast.IncDecStmt:
				// counting is commutative
			case *ast.ReturnStmt:
				for _, r := range x.Results {
					if constOf(info, r) == nil && exprString(r) != "nil" {
						leaks = append(leaks, "first-match return of "+exprString(r))
					}
				}
			case *ast.CallExpr:
				if id, ok := unparen(x.Fun).(*ast.Ident); ok {
					if _, isB := info.Uses[id].(*types.Builtin); isB {
						switch id.Name {
						case "delete", "len", "cap", "append", "make", "new", "panic":
							return true
						}
					}
					if _, isT := info.Uses[id].(*types.TypeName); isT {
						return true // conversion
					}
				}
				if tv, ok := info.Types[x.Fun]; ok && tv.IsType() {
					return true
				}
				fn, _ := callee(info, x).(*types.Func)
				if fn == nil {
					leaks = append(leaks, "dynamic call "+exprString(x.Fun))
					return true
				}
				if commutativeCallee(c, fn) {
					return true
				}
				leaks = append(leaks, "call "+fw.FuncName(fn))
			case *ast.SendStmt, *ast.GoStmt, *ast.DeferStmt:
				leaks = append(leaks, "send/go/defer in loop body")
			}
			return true
		})
	}
	walk(s.body)
	return leaks
}

// commutativeCallee: callees whose effect does not depend on call order (keyed inserts, pure
// queries) — by resolved object, one line of reason each.
func commutativeCallee(c *fw.Ctx, fn *types.Func) bool {
	if fn.Pkg() == nil {
		return true // universe (error.Error)
	}
	path, name := fn.Pkg().Path(), shortName(fn)
	switch path {
	case "go/types":
		switch name {
		case "Scope.Insert": // keyed by name; distinct keys commute
			return true
		}
		// accessors and constructors of go/types are pure
		sig := fn.Type().(*types.Signature)
		if strings.HasPrefix(fn.Name(), "New") || (sig.Recv() != nil && sig.Results().Len() > 0 && !strings.HasPrefix(fn.Name(), "Set") && !strings.HasPrefix(fn.Name(), "Add")) {
			return true
		}
		return false
	case "strings", "strconv", "go/token", "go/ast", "go/constant", "unicode", "unicode/utf8", "path", "path/filepath", "sort", "bytes":
		if path == "bytes" && strings.HasPrefix(name, "Buffer.Write") {
			return false
		}
		return true
	}
	if c.IsAnalysed(fn.Pkg()) {
		return orderFreeSummary(c, fn, map[*types.Func]bool{})
	}
	return false
}

// orderFreeSummary: a function of the analysed packages is order-free when it has no effect
// outside its own locals other than commutative ones (same classifier applied to its body).
func orderFreeSummary(c *fw.Ctx, fn *types.Func, visiting map[*types.Func]bool) bool {
	if visiting[fn] {
		return true
	}
	visiting[fn] = true
	fd := c.DeclOf(fn)
	if fd == nil || fd.Body == nil {
		return false
	}
	s := mapIterSite{p: c.PkgOfDecl(fd), fd: fd, body: fd.Body, loop: fd.Body}
	// returns of the callee are values handed back, not effects: ignore "first-match return"
	leaks := classifyLoopBody(c, s)
	for _, l := range leaks {
		if !strings.HasPrefix(l, "first-match return") {
			return false
		}
	}
	return true
}

// sortedAfter: after the loop, in the same function, a sort.* / slices.Sort* call on the slice
// precedes every other use of it.
func sortedAfter(info *types.Info, fd *ast.FuncDecl, loop ast.Node, slice ast.Expr) bool {
	name := exprString(slice)
	var firstUse, sortPos token.Pos
	ast.Inspect(fd.Body, func(n ast.Node) bool {
		if n == nil || n.Pos() <= loop.End() && n.End() <= loop.End() {
			return n == nil || n.End() > loop.Pos()
		}
		if call, ok := n.(*ast.CallExpr); ok && call.Pos() > loop.End() {
			if fn, ok := callee(info, call).(*types.Func); ok && fn != nil && fn.Pkg() != nil && (fn.Pkg().Path() == "sort" || fn.Pkg().Path() == "slices") &&
				(strings.HasPrefix(fn.Name(), "Sort") || fn.Name() == "Strings" || fn.Name() == "Ints" || fn.Name() == "Slice" || fn.Name() == "SliceStable" || fn.Name() == "Stable") {
				for _, a := range call.Args {
					if strings.Contains(exprString(a), name) && !sortPos.IsValid() {
						sortPos = call.Pos()
					}
				}
			}
		}
		if id, ok := n.(*ast.Ident); ok && id.Pos() > loop.End() && id.Name == name && !firstUse.IsValid() {
			firstUse = id.Pos()
		}
		return true
	})
	if !sortPos.IsValid() {
		return false
	}
	// the first mention after the loop must be inside the sort call (or a len() guard just before it)
	return firstUse >= sortPos || isLenGuard(fd, firstUse, name)
}

func isLenGuard(fd *ast.FuncDecl, pos token.Pos, name string) bool {
	ok := false
	ast.Inspect(fd.Body, func(n ast.Node) bool {
		if call, isC := n.(*ast.CallExpr); isC && call.Pos() <= pos && pos < call.End() {
			if id, isId := call.Fun.(*ast.Ident); isId && id.Name == "len" {
				ok = true
			}
		}
		return true
	})
	return ok
}

// ---------------------------------------------------------------------------
// R15.2 other sources of nondeterminism reachable from the builder.

func r152(c *fw.Ctx) {
	const rule = "R15.2"
	cg := c.CallGraph(Coarse)
	// roots: exported functions and methods of the builder packages (not the importer/cache, which run `go list`)
	builderPkgs := map[string]bool{fw.Mod: true, fw.Mod + "/internal": true, fw.Mod + "/internal/target/util": true,
		fw.Mod + "/internal/go/printer": true, fw.Mod + "/internal/go/format": true, fw.Mod + "/internal/typeparams": true,
		fw.Mod + "/typeutil": true, fw.Mod + "/target": true, fw.Mod + "/token": true}
	reach := map[*ssa.Function]bool{}
	var work []*ssa.Function
	for fn := range cg.Nodes {
		if fn == nil || fn.Pkg == nil || !builderPkgs[fn.Pkg.Pkg.Path()] {
			continue
		}
		if fn.Object() != nil && fn.Object().Exported() || fn.Name() == "init" {
			if !reach[fn] {
				reach[fn] = true
				work = append(work, fn)
			}
		}
	}
	parent := map[*ssa.Function]*callgraph.Edge{}
	for len(work) > 0 {
		fn := work[len(work)-1]
		work = work[:len(work)-1]
		nd := cg.Nodes[fn]
		if nd == nil {
			continue
		}
		for _, e := range nd.Out {
			cal := e.Callee.Func
			if cal == nil || reach[cal] {
				continue
			}
			// stay inside the builder packages; calls leaving them are classified at the call site
			if cal.Pkg != nil && builderPkgs[cal.Pkg.Pkg.Path()] {
				reach[cal] = true
				parent[cal] = e
				work = append(work, cal)
			}
		}
		for _, an := range fn.AnonFuncs {
			if !reach[an] {
				reach[an] = true
				work = append(work, an)
			}
		}
	}
	c.Units[rule+" builder functions reachable from the API"] = len(reach)
	c.Floor(rule, "reachable builder functions", len(reach), 400)

	forbiddenPkg := map[string]string{"time": "wall-clock time", "math/rand": "randomness", "math/rand/v2": "randomness", "crypto/rand": "randomness", "hash/maphash": "per-process random seed"}
	forbiddenFn := map[string]string{"os.Getpid": "process id", "os.Getenv": "environment", "os.Hostname": "host name", "os.Getwd": "working directory", "os.LookupEnv": "environment", "os.Environ": "environment"}
	exceptions := map[string]string{
		"typeutil:hasher.hashTypeName": "address of a *types.TypeName used only as a hash value; bucket order is unobservable because the builder never iterates the map (checked below)",
		"typeutil:init":                "maphash.MakeSeed initialises theSeed, which no function reads (checked below)",
	}
	n := 0
	for fn := range reach {
		if fn.Blocks == nil {
			continue
		}
		top := fn
		for top.Parent() != nil {
			top = top.Parent()
		}
		fname := top.Name()
		if o, ok := top.Object().(*types.Func); ok {
			fname = fw.FuncName(o)
		} else if top.Pkg != nil {
			rel := strings.TrimPrefix(top.Pkg.Pkg.Path(), fw.Mod)
			fname = strings.TrimPrefix(rel, "/") + ":" + top.Name()
		}
		report := func(pos token.Pos, what string) {
			n++
			if why, ok := exceptions[fname]; ok {
				c.OK(rule, fname+"/"+what, pos, "excepted: %s", why)
				return
			}
			c.Violate(rule, fname+"/"+what, pos, "%s is reachable from the builder API: output may differ between identical builds", what)
		}
		for _, b := range fn.Blocks {
			for _, ins := range b.Instrs {
				switch x := ins.(type) {
				case *ssa.Go:
					report(x.Pos(), "go-statement")
				case *ssa.Select:
					report(x.Pos(), "select")
				case *ssa.Send:
					report(x.Pos(), "channel-send")
				case *ssa.UnOp:
					if x.Op == token.ARROW {
						report(x.Pos(), "channel-receive")
					}
				case *ssa.Convert:
					// unsafe.Pointer -> uintptr
					if bt, ok := x.Type().Underlying().(*types.Basic); ok && bt.Kind() == types.Uintptr {
						if st, ok := x.X.Type().Underlying().(*types.Basic); ok && st.Kind() == types.UnsafePointer {
							report(x.Pos(), "pointer-to-integer")
						}
					}
				case ssa.CallInstruction:
					cal := x.Common().StaticCallee()
					if cal == nil || cal.Pkg == nil {
						continue
					}
					pp := cal.Pkg.Pkg.Path()
					if why, ok := forbiddenPkg[pp]; ok {
						report(x.Pos(), "call "+pp+"."+cal.Name()+" ("+why+")")
					}
					if why, ok := forbiddenFn[pp+"."+cal.Name()]; ok {
						report(x.Pos(), "call "+pp+"."+cal.Name()+" ("+why+")")
					}
					// %p verbs
					if pp == "fmt" || pp == "log" {
						for _, a := range x.Common().Args {
							if k, ok := a.(*ssa.Const); ok && k.Value != nil && strings.Contains(k.Value.ExactString(), "%p") {
								report(x.Pos(), "%p verb")
							}
						}
					}
				}
			}
		}
	}
	c.Units[rule+" forbidden-source sites (all excepted when the check passes)"] = n
	// sub-rule: the typeutil map's bucket order is unobservable by the builder: Iterate/Keys/String/KeysString have
	// no caller outside typeutil
	tp := c.Pkg("typeutil")
	for _, m := range []string{"Iterate", "Keys", "String", "KeysString"} {
		fn := c.LookupFunc("typeutil:(*Map)." + m)
		if fn == nil {
			continue
		}
		outside := 0
		for _, id := range usesOf(c, fn) {
			if fd := enclosingFunc(c, id.Pos()); fd != nil && c.PkgOfDecl(fd) != tp {
				outside++
			}
		}
		c.Check(outside == 0, rule, "typeutil.Map."+m+"/no-builder-caller", fn.Pos(), "the builder iterates the pointer-hashed type map through %s: bucket order (address-dependent) becomes observable", m)
	}
	// theSeed is never read
	if seed := tp.Types.Scope().Lookup("theSeed"); seed != nil {
		c.Check(len(usesOf(c, seed)) == 0, rule, "typeutil.theSeed/unused", seed.Pos(), "the per-process random seed is read by the hasher")
	}
	// sync.Pool in the printer: the pooled object is overwritten by a whole-struct store before use
	r152pool(c)
}

func r152pool(c *fw.Ctx) {
	const rule = "R15.2"
	pp := c.Pkg("internal/go/printer")
	info := pp.TypesInfo
	gets := 0
	for _, fd := range c.Decls() {
		if c.PkgOfDecl(fd) != pp {
			continue
		}
		inspectFunc(fd, func(n ast.Node) bool {
			as, ok := n.(*ast.AssignStmt)
			if !ok || len(as.Rhs) != 1 {
				return true
			}
			// p := pool.Get().(*T)
			var call *ast.CallExpr
			if ta, ok := unparen(as.Rhs[0]).(*ast.TypeAssertExpr); ok {
				call, _ = unparen(ta.X).(*ast.CallExpr)
			}
			if call == nil || !isFunc(callee(info, call), "sync", "Pool.Get") {
				return true
			}
			gets++
			id, _ := as.Lhs[0].(*ast.Ident)
			if id == nil {
				c.Undecided(rule, declName(c, fd)+"/pool-get", as.Pos(), "pooled value not bound to a variable")
				return true
			}
			obj := info.Defs[id]
			// next use must be a whole-struct store `*p = T{...}`
			var firstUse ast.Node
			inspectFunc(fd, func(m ast.Node) bool {
				if firstUse != nil {
					return false
				}
				if st, ok := m.(*ast.AssignStmt); ok && st.Pos() > as.End() {
					for _, l := range st.Lhs {
						if se, ok := unparen(l).(*ast.StarExpr); ok {
							if lid, ok := unparen(se.X).(*ast.Ident); ok && info.Uses[lid] == obj {
								firstUse = st
								return false
							}
						}
					}
				}
				if uid, ok := m.(*ast.Ident); ok && uid.Pos() > as.End() && info.Uses[uid] == obj {
					firstUse = uid
					return false
				}
				return true
			})
			whole := false
			if st, ok := firstUse.(*ast.AssignStmt); ok && len(st.Rhs) == 1 {
				if lit := asLit(st.Rhs[0]); lit != nil {
					whole = true
				}
			}
			c.Check(whole, rule, declName(c, fd)+"/pooled-object-overwritten", as.Pos(), "an object taken from a sync.Pool is used before being overwritten as a whole: state of an earlier print may leak into this one")
			return true
		})
	}
	c.Units[rule+" sync.Pool.Get sites"] = gets
}

// sortNotTotal: the sort that follows a map walk restores a deterministic order only if elements that
// compare equal are indistinguishable in the output. sort.Strings/Ints/slices.Sort order the emitted values
// themselves. For sort.Slice(s, less) the key P(s[i]) compared by less must either be the very projection
// that is used of the elements afterwards, or be derived (through a quoting helper) from the range key of
// the walked map, which is unique per element. Returns "" when total, else the reason.
func sortNotTotal(info *types.Info, fd *ast.FuncDecl, loop ast.Node, slice ast.Expr, appendCall *ast.CallExpr) string {
	name := exprString(slice)
	var sortCall *ast.CallExpr
	ast.Inspect(fd.Body, func(n ast.Node) bool {
		if call, ok := n.(*ast.CallExpr); ok && call.Pos() > loop.End() && sortCall == nil {
			if fn, ok := callee(info, call).(*types.Func); ok && fn != nil && fn.Pkg() != nil && (fn.Pkg().Path() == "sort" || fn.Pkg().Path() == "slices") {
				for _, a := range call.Args {
					if exprString(a) == name {
						sortCall = call
					}
				}
			}
		}
		return true
	})
	if sortCall == nil {
		return ""
	}
	fn := callee(info, sortCall).(*types.Func)
	if fn.Name() != "Slice" && fn.Name() != "SliceStable" && fn.Name() != "SortFunc" && fn.Name() != "SortStableFunc" {
		return "" // orders the values themselves
	}
	lit, ok := sortCall.Args[len(sortCall.Args)-1].(*ast.FuncLit)
	if !ok || len(lit.Body.List) != 1 {
		return "the comparison function is not a single comparison the rule can read"
	}
	ret, ok := lit.Body.List[0].(*ast.ReturnStmt)
	if !ok || len(ret.Results) != 1 {
		return "the comparison function is not a single comparison the rule can read"
	}
	be, ok := unparen(ret.Results[0]).(*ast.BinaryExpr)
	if !ok || be.Op != token.LSS {
		return "the comparison is not `P(s[i]) < P(s[j])`"
	}
	// P with the element abstracted: replace `name[<ident>]` by "$"
	proj := func(e ast.Expr) string {
		str := exprString(e)
		for _, f := range lit.Type.Params.List {
			for _, nm := range f.Names {
				str = strings.ReplaceAll(str, name+"["+nm.Name+"]", "$")
			}
		}
		return str
	}
	px, py := proj(be.X), proj(be.Y)
	if px != py || !strings.Contains(px, "$") {
		return "the two sides of the comparison are not the same projection of the two elements"
	}
	// (a) key derived from the range key of the walked map through the appended literal
	if rs, ok := loop.(*ast.RangeStmt); ok && rs.Key != nil {
		keyID, _ := rs.Key.(*ast.Ident)
		if keyID != nil && len(appendCall.Args) == 2 {
			elem := unparen(appendCall.Args[1])
			// element is the key itself and P is the identity
			if id, ok := elem.(*ast.Ident); ok && id.Name == keyID.Name && px == "$" {
				return ""
			}
			// element is a literal one of whose fields holds quote(key), and P selects that field
			if lit := asLit(elem); lit != nil {
				for fname, fe := range structFields(info, lit) {
					arg := unparen(fe)
					if call, ok := arg.(*ast.CallExpr); ok && len(call.Args) == 1 {
						if cf, ok := callee(info, call).(*types.Func); ok && (cf.Name() == "astStringLit" || cf.Name() == "Quote" || cf.Name() == "stringLit") {
							arg = unparen(call.Args[0])
						}
					}
					if id, ok := arg.(*ast.Ident); ok && id.Name == keyID.Name && strings.Contains(px, "."+fname) {
						return ""
					}
				}
			}
		}
	}
	// (b) the projection compared is the projection used afterwards
	usesOnlyP := true
	other := ""
	seenUse := false
	ast.Inspect(fd.Body, func(n ast.Node) bool {
		rs, ok := n.(*ast.RangeStmt)
		if !ok || rs.Pos() < sortCall.End() || exprString(rs.X) != name {
			return true
		}
		v, _ := rs.Value.(*ast.Ident)
		if v == nil {
			return true
		}
		want := strings.ReplaceAll(px, "$", v.Name)
		var stack []ast.Node
		ast.Inspect(rs.Body, func(m ast.Node) bool {
			if m == nil {
				stack = stack[:len(stack)-1]
				return true
			}
			stack = append(stack, m)
			if id, ok := m.(*ast.Ident); ok && id.Name == v.Name && info.Uses[id] == info.Defs[v] {
				seenUse = true
				// the largest enclosing selector/call chain on the element
				outer := ast.Node(id)
				for i := len(stack) - 2; i >= 0; i-- {
					switch p := stack[i].(type) {
					case *ast.SelectorExpr:
						if p.X == outer {
							outer = p
							continue
						}
					case *ast.CallExpr:
						if p.Fun == outer {
							outer = p
							continue
						}
					}
					break
				}
				if got := exprString(outer.(ast.Expr)); got != want {
					usesOnlyP = false
					other = got
				}
			}
			return true
		})
		return true
	})
	if seenUse && usesOnlyP {
		return ""
	}
	if !seenUse {
		return "the elements are ordered by " + px + ", which is not known to be unique per element (ties keep the map's order)"
	}
	return "elements are ordered by " + strings.ReplaceAll(px, "$", "x") + " but " + other + " is emitted: two elements with equal keys keep the map's iteration order"
}
