package rules

import (
	"go/ast"
	"go/types"

	"gogenvet/fw"
)

// R8.5: promotion does not depend on the visibility of the embedded field it passes through. Go
// selects x.M through an embedded field of any name (an unexported embedded type of another
// package promotes its exported members); only the selected member itself must be accessible.
// In every loop of the builder package that descends into embedded fields (tests v.Embedded() and
// hands v.Type() to a lookup), the access test must not be applied to that field v.
func r85(c *fw.Ctx) {
	const rule = "R8.5"
	p := c.Pkg("")
	info := p.TypesInfo
	n := 0
	for _, fd := range c.Decls() {
		if c.PkgOfDecl(fd) != p || fd.Body == nil {
			continue
		}
		fname := declName(c, fd)
		ast.Inspect(fd.Body, func(m ast.Node) bool {
			var body *ast.BlockStmt
			switch l := m.(type) {
			case *ast.ForStmt:
				body = l.Body
			case *ast.RangeStmt:
				body = l.Body
			}
			if body == nil {
				return true
			}
			// variables v of type *types.Var with v.Embedded() and v.Type() passed to a call, in this loop
			embedded, descended, access := map[types.Object]bool{}, map[types.Object]bool{}, map[types.Object]*ast.CallExpr{}
			recvVar := func(call *ast.CallExpr, method string) types.Object {
				sel, ok := call.Fun.(*ast.SelectorExpr)
				if !ok || sel.Sel.Name != method {
					return nil
				}
				fn, _ := info.Uses[sel.Sel].(*types.Func)
				if fn == nil || fn.Pkg() == nil || fn.Pkg().Path() != "go/types" {
					return nil
				}
				if id, ok := unparen(sel.X).(*ast.Ident); ok {
					return info.Uses[id]
				}
				return nil
			}
			ast.Inspect(body, func(k ast.Node) bool {
				call, ok := k.(*ast.CallExpr)
				if !ok {
					return true
				}
				if v := recvVar(call, "Embedded"); v != nil {
					embedded[v] = true
				}
				if fn, ok := callee(info, call).(*types.Func); ok && fn.Pkg() == p.Types {
					for _, a := range call.Args {
						ast.Inspect(a, func(x ast.Node) bool {
							if ac, ok := x.(*ast.CallExpr); ok {
								if v := recvVar(ac, "Type"); v != nil && fn.Name() != "allowAccess" {
									descended[v] = true
								}
								if fn.Name() == "allowAccess" {
									for _, meth := range []string{"Name", "Pkg"} {
										if v := recvVar(ac, meth); v != nil {
											access[v] = call
										}
									}
								}
							}
							return true
						})
					}
				}
				return true
			})
			for v := range embedded {
				if !descended[v] {
					continue
				}
				n++
				call := access[v]
				pos := body.Pos()
				if call != nil {
					pos = call.Pos()
				}
				c.Check(call == nil, rule, sprintf("%s/descent-into-embedded-field/independent-of-its-visibility", fname), pos,
					"the loop descends into embedded field %s (Embedded() tested, its type handed to the lookup) and also applies the access test to that field itself: promotion through an unexported embedded field of another package (x.M with M exported) is then lost, although Go selects it", v.Name())
			}
			return true
		})
	}
	c.Floor(rule, "loops that descend into embedded fields", n, 1)
}
