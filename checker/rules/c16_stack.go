package rules

import (
	"go/ast"
	"go/constant"
	"go/token"
	"go/types"
	"strings"

	"golang.org/x/tools/go/callgraph"

	"gogenvet/fw"
)

// stackMutators: functions of the analysed packages that (transitively) change the
// length of an operand stack.
func stackMutators(c *fw.Ctx) map[*types.Func]bool {
	cg := c.CallGraph(Coarse)
	direct := map[string]bool{"Push": true, "Pop": true, "PopN": true, "Ret": true, "SetLen": true}
	mut := map[*callgraph.Node]bool{}
	var work []*callgraph.Node
	for fn, nd := range cg.Nodes {
		if fn == nil || fn.Object() == nil {
			continue
		}
		o, ok := fn.Object().(*types.Func)
		if !ok || o.Pkg() == nil || o.Pkg().Path() != fw.Mod+"/internal" {
			continue
		}
		if strings.HasPrefix(shortName(o), "Stack.") && direct[o.Name()] {
			mut[nd] = true
			work = append(work, nd)
		}
	}
	for len(work) > 0 {
		nd := work[len(work)-1]
		work = work[:len(work)-1]
		for _, e := range nd.In {
			if !mut[e.Caller] {
				mut[e.Caller] = true
				work = append(work, e.Caller)
			}
		}
	}
	r := map[*types.Func]bool{}
	for nd := range mut {
		if nd.Func != nil {
			f := nd.Func
			for f.Parent() != nil { // closures count for their enclosing function
				f = f.Parent()
			}
			if o, ok := f.Object().(*types.Func); ok {
				r[o] = true
			}
		}
	}
	return r
}

type stackOp struct {
	kind  string // peek, remove, delegate
	count ast.Expr
	k     int64 // for Get(-k) and Pop
	call  *ast.CallExpr
	name  string
}

func r162(c *fw.Ctx) {
	const rule = "R16.2"
	p := c.Pkg("")
	info := p.TypesInfo
	muts := stackMutators(c)
	stackPkg := fw.Mod + "/internal"
	isCB := func(fn *types.Func) bool {
		sig, _ := fn.Type().(*types.Signature)
		return sig != nil && sig.Recv() != nil && namedIs(sig.Recv().Type(), fw.Mod, "CodeBuilder")
	}
	// frozen exceptions: one symbol, one reason
	exceptions := map[string]string{
		"(*CodeBuilder).Get": "public accessor: peeks on behalf of the caller and removes nothing by contract",
	}
	nSites, nJudged, nDeleg := 0, 0, 0
	var delegating []string
	for _, fd := range c.Decls() {
		if c.PkgOfDecl(fd) != p || fd.Body == nil {
			continue
		}
		fname := declName(c, fd)
		// quick filter: does the function peek?
		peeks := false
		inspectFunc(fd, func(n ast.Node) bool {
			if call, ok := n.(*ast.CallExpr); ok {
				if fn, ok := callee(info, call).(*types.Func); ok && fn != nil && fn.Pkg() != nil && fn.Pkg().Path() == stackPkg && (fn.Name() == "GetArgs" || fn.Name() == "Get") {
					peeks = true
				}
			}
			return true
		})
		if !peeks {
			continue
		}
		if why, ok := exceptions[fname]; ok {
			c.OK(rule, fname+"/excepted", fd.Pos(), "%s", why)
			continue
		}
		// constant locals (x := <const>, never reassigned)
		constLocal := map[types.Object]constant.Value{}
		assigned := map[types.Object]int{}
		inspectFunc(fd, func(n ast.Node) bool {
			switch s := n.(type) {
			case *ast.AssignStmt:
				for i, l := range s.Lhs {
					if id, ok := l.(*ast.Ident); ok {
						o := info.Defs[id]
						if o == nil {
							o = info.Uses[id]
						}
						if o != nil {
							assigned[o]++
							if s.Tok == token.DEFINE && i < len(s.Rhs) && len(s.Lhs) == len(s.Rhs) {
								if v := constOf(info, s.Rhs[i]); v != nil {
									constLocal[o] = v
								}
							}
						}
					}
				}
			case *ast.IncDecStmt:
				if id, ok := s.X.(*ast.Ident); ok {
					assigned[info.Uses[id]] += 2
				}
			}
			return true
		})
		for o := range constLocal {
			if assigned[o] != 1 {
				delete(constLocal, o)
			}
		}
		paths, trunc := enumPaths(info, fd.Body)
		if trunc {
			c.Undecided(rule, fname+"/paths", fd.Pos(), "too many paths")
			continue
		}
		type verdict struct {
			ok, judged bool
			detail     string
		}
		results := map[string]verdict{}
		delegSite, neverRemoved := map[string]bool{}, map[string]bool{}
		var order []string
		record := func(key string, v verdict) {
			old, seen := results[key]
			if !seen {
				order = append(order, key)
				results[key] = v
				return
			}
			if old.ok && !v.ok {
				results[key] = v
			} else if !old.judged && v.judged && v.ok {
				results[key] = verdict{ok: old.ok, judged: true, detail: old.detail}
			}
		}
		for _, pa := range paths {
			if pa.Abnormal {
				continue
			}
			// path facts: equalities ident == const, and infeasibility through constant locals
			eq := map[types.Object]constant.Value{}
			for o, v := range constLocal {
				eq[o] = v
			}
			infeasible := false
			for _, f := range pa.Facts {
				cond := unparen(f.Cond)
				if id, ok := cond.(*ast.Ident); ok {
					if v, ok := constLocal[info.Uses[id]]; ok && v.Kind() == constant.Bool && constant.BoolVal(v) != f.Val {
						infeasible = true
					}
				}
				if be, ok := cond.(*ast.BinaryExpr); ok && (be.Op == token.EQL || be.Op == token.NEQ) {
					if id, ok := unparen(be.X).(*ast.Ident); ok {
						if k := constOf(info, be.Y); k != nil && (be.Op == token.EQL) == f.Val {
							eq[info.Uses[id]] = k
						}
					}
				}
			}
			if infeasible {
				continue
			}
			// error path?
			errPath := false
			errT := types.Universe.Lookup("error").Type()
			for _, n := range pa.Nodes {
				if r, ok := n.(*ast.ReturnStmt); ok {
					for i, e := range r.Results {
						isErrPos := false
						if fd.Type.Results != nil {
							k := 0
							for _, f := range fd.Type.Results.List {
								cnt := len(f.Names)
								if cnt == 0 {
									cnt = 1
								}
								if i >= k && i < k+cnt && types.Identical(info.TypeOf(f.Type), errT) {
									isErrPos = true
								}
								k += cnt
							}
						}
						if isErrPos && exprString(e) != "nil" {
							errPath = true
						}
					}
				}
			}
			evalInt := func(e ast.Expr) (int64, bool) {
				var ev func(e ast.Expr) (int64, bool)
				ev = func(e ast.Expr) (int64, bool) {
					e = unparen(e)
					if v, ok := constInt(info, e); ok {
						return v, true
					}
					switch x := e.(type) {
					case *ast.Ident:
						if v, ok := eq[info.Uses[x]]; ok {
							return constant.Int64Val(constant.ToInt(v))
						}
					case *ast.BinaryExpr:
						a, ok1 := ev(x.X)
						b, ok2 := ev(x.Y)
						if ok1 && ok2 {
							switch x.Op {
							case token.ADD:
								return a + b, true
							case token.SUB:
								return a - b, true
							}
						}
					case *ast.UnaryExpr:
						if x.Op == token.SUB {
							a, ok := ev(x.X)
							return -a, ok
						}
					}
					return 0, false
				}
				return ev(e)
			}
			sameCount := func(a, b ast.Expr, plus int64) bool {
				av, ok1 := evalInt(a)
				bv, ok2 := evalInt(b)
				if ok1 && ok2 {
					return av+plus == bv
				}
				if plus == 0 {
					return exprString(unparen(a)) == exprString(unparen(b))
				}
				return exprString(unparen(b)) == exprString(unparen(a))+" + 1" || exprString(unparen(b)) == "("+exprString(unparen(a))+" + 1)"
			}
			// ops in path order
			var ops []stackOp
			for _, call := range callsIn(pa.Nodes) {
				fn, ok := callee(info, call).(*types.Func)
				if !ok || fn == nil {
					continue
				}
				if fn.Pkg() != nil && fn.Pkg().Path() == stackPkg && strings.HasPrefix(shortName(fn), "Stack.") {
					switch fn.Name() {
					case "GetArgs":
						ops = append(ops, stackOp{kind: "peek", count: call.Args[0], call: call, name: "GetArgs"})
					case "Get":
						if k, ok := evalInt(call.Args[0]); ok && k < 0 {
							ops = append(ops, stackOp{kind: "peek", k: -k, call: call, name: "Get"})
						} else if u, ok := unparen(call.Args[0]).(*ast.UnaryExpr); ok && u.Op == token.SUB {
							ops = append(ops, stackOp{kind: "peek", count: u.X, call: call, name: "Get"})
						}
					case "PopN", "Ret":
						ops = append(ops, stackOp{kind: "remove", count: call.Args[0], call: call, name: fn.Name()})
					case "Pop":
						ops = append(ops, stackOp{kind: "remove", k: 1, call: call, name: "Pop"})
					case "SetLen":
						ops = append(ops, stackOp{kind: "remove", k: -1, call: call, name: "SetLen"})
					}
					continue
				}
				if muts[fn] && isCB(fn) {
					ops = append(ops, stackOp{kind: "delegate", call: call, name: fn.Name()})
				} else if muts[fn] {
					// package-level helper that receives the peeked arity: delegation of the removal
					ops = append(ops, stackOp{kind: "helper", call: call, name: fn.Name()})
				}
			}
			for i, op := range ops {
				if op.kind != "peek" {
					continue
				}
				key := fname + "/" + op.name
				if op.count != nil {
					key += "(" + exprString(op.count) + ")"
				} else {
					key += sprintf("(-%d)", op.k)
				}
				var removes []stackOp
				deleg := false
				for _, later := range ops[i+1:] {
					switch later.kind {
					case "remove":
						removes = append(removes, later)
					case "delegate":
						deleg = true
					}
				}
				// matching removal?
				match, mismatch := 0, ""
				for _, r := range removes {
					if r.name == "SetLen" {
						match++ // absolute truncation to the block base
						continue
					}
					switch {
					case op.count != nil && r.count != nil && (sameCount(op.count, r.count, 0) || sameCount(op.count, r.count, 1)):
						match++
					case op.count == nil && r.count != nil:
						if v, ok := evalInt(r.count); ok && v >= op.k {
							match++
						} else {
							mismatch = exprString(r.count)
						}
					case op.count == nil && r.k == 1 && op.k == 1:
						match++
					default:
						if r.count != nil {
							mismatch = exprString(r.count)
						}
					}
				}
				switch {
				case errPath:
					record(key, verdict{ok: true, judged: false, detail: "error path"})
				case match == 1:
					record(key, verdict{ok: true, judged: true})
				case match > 1 && !deleg:
					record(key, verdict{ok: false, judged: true, detail: sprintf("the peeked operands are removed %d times on one path", match)})
				case mismatch != "" && !deleg && match == 0:
					record(key, verdict{ok: false, judged: true, detail: sprintf("peeked %s but removed %s on a normal path: the stack is left unbalanced", strings.TrimPrefix(key, fname+"/"), mismatch)})
				case deleg:
					delegSite[key] = true
					record(key, verdict{ok: true, judged: false, detail: "delegating"})
				case op.name == "Get" && len(removes) == 0:
					// peek at the top without consuming: in-place update of the top element
					record(key, verdict{ok: true, judged: true})
				default:
					neverRemoved[key] = true
				}
			}
		}
		for k := range neverRemoved {
			if delegSite[k] {
				// the same peek is consumed by delegated builder operations on other paths (typically a loop
				// over the operands that may run zero times): listed, not judged
				record(k, verdict{ok: true, judged: false, detail: "delegating"})
			} else {
				record(k, verdict{ok: false, judged: true, detail: "peeked operands are never removed on a normal path (leaked stack slots)"})
			}
		}
		for _, k := range order {
			v := results[k]
			nSites++
			switch {
			case !v.ok:
				nJudged++
				c.Violate(rule, k, fd.Pos(), "%s", v.detail)
			case v.judged:
				nJudged++
				c.OK(rule, k, fd.Pos(), "every judged normal path removes the same count it peeked")
			default:
				nDeleg++
				delegating = append(delegating, k)
				c.OK(rule, k+"/delegating", fd.Pos(), "removal is delegated to other builder operations on every path: listed, not judged")
			}
		}
	}
	c.Units[rule+" delegating (not judged)"] = nDeleg
	c.Floor(rule, "peek sites", nSites, 25)
	c.Floor(rule, "judged peek sites", nJudged, 15)
	if len(delegating) > 0 {
		c.Explainf("R16.2 delegating, not judged: %s", strings.Join(delegating, ", "))
	}
}
