package rules

import (
	"go/ast"
	"go/constant"
	"go/token"
	"go/types"

	"gogenvet/fw"
)

// Basic-kind classifiers. A function that classifies a type by looking at the Kind()/Info() of its
// *types.Basic form touches the kind only through comparisons and mask tests with constants, so its
// verdict can be computed for every one of the (finitely many) basic kinds without running anything:
// the return expression of the `case *types.Basic` arm is evaluated with go/constant arithmetic for
// t = types.Typ[k], k = Bool ... UntypedNil. The result is compared with go/types' own classification.

type kindEval struct {
	info   *types.Info
	basic  types.Object              // the variable bound to the *types.Basic
	locals map[types.Object]ast.Expr // single-assignment locals of the arm (kind := t.Kind())
	k      *types.Basic
}

func (e *kindEval) eval(x ast.Expr) (constant.Value, bool) {
	x = unparen(x)
	if tv, ok := e.info.Types[x]; ok && tv.Value != nil {
		return tv.Value, true
	}
	switch v := x.(type) {
	case *ast.Ident:
		if def, ok := e.locals[e.info.Uses[v]]; ok {
			return e.eval(def)
		}
	case *ast.CallExpr:
		if se, ok := unparen(v.Fun).(*ast.SelectorExpr); ok && len(v.Args) == 0 {
			if id, ok := unparen(se.X).(*ast.Ident); ok && e.info.Uses[id] == e.basic {
				switch se.Sel.Name {
				case "Kind":
					return constant.MakeInt64(int64(e.k.Kind())), true
				case "Info":
					return constant.MakeInt64(int64(e.k.Info())), true
				}
			}
		}
	case *ast.UnaryExpr:
		a, ok := e.eval(v.X)
		if !ok {
			return nil, false
		}
		switch v.Op {
		case token.NOT:
			return constant.MakeBool(!constant.BoolVal(a)), true
		case token.SUB, token.XOR, token.ADD:
			return constant.UnaryOp(v.Op, a, 0), true
		}
	case *ast.BinaryExpr:
		a, ok1 := e.eval(v.X)
		if !ok1 {
			return nil, false
		}
		if v.Op == token.LAND || v.Op == token.LOR {
			if a.Kind() != constant.Bool {
				return nil, false
			}
			if (v.Op == token.LAND) != constant.BoolVal(a) {
				return a, true // short circuit
			}
			return e.eval(v.Y)
		}
		b, ok2 := e.eval(v.Y)
		if !ok2 {
			return nil, false
		}
		switch v.Op {
		case token.EQL, token.NEQ, token.LSS, token.LEQ, token.GTR, token.GEQ:
			return constant.MakeBool(constant.Compare(a, v.Op, b)), true
		case token.AND, token.OR, token.XOR, token.AND_NOT, token.ADD, token.SUB:
			return constant.BinaryOp(a, v.Op, b), true
		}
	}
	return nil, false
}

// basicArm finds, in a classifier of the shape `switch t := typ.(type) { case *types.Basic: ... return E }`,
// the variable t and the returned expression E (with the arm's single-assignment locals).
func basicArm(info *types.Info, fd *ast.FuncDecl) (types.Object, ast.Expr, map[types.Object]ast.Expr) {
	var obj types.Object
	var ret ast.Expr
	locals := map[types.Object]ast.Expr{}
	ast.Inspect(fd.Body, func(n ast.Node) bool {
		ts, ok := n.(*ast.TypeSwitchStmt)
		if !ok || ret != nil {
			return true
		}
		for _, cl := range ts.Body.List {
			cc := cl.(*ast.CaseClause)
			if len(cc.List) != 1 || !namedIs(info.TypeOf(cc.List[0]), "go/types", "Basic") {
				continue
			}
			obj = info.Implicits[cc]
			for _, st := range cc.Body {
				switch s := st.(type) {
				case *ast.AssignStmt:
					if s.Tok == token.DEFINE && len(s.Lhs) == 1 && len(s.Rhs) == 1 {
						if id, ok := s.Lhs[0].(*ast.Ident); ok {
							locals[info.Defs[id]] = s.Rhs[0]
						}
					}
				case *ast.ReturnStmt:
					if len(s.Results) == 1 && ret == nil {
						ret = s.Results[0]
					}
				}
			}
		}
		return true
	})
	return obj, ret, locals
}

// kindClassifiers (R4.6 for C04, also run for C05): name -> go/types flag the classifier must agree with.
func kindClassifiers(c *fw.Ctx, rule string) {
	table := []struct {
		fn   string
		flag types.BasicInfo
		what string
	}{
		{"isUnsigned", types.IsUnsigned, "unsigned integer types (Go spec, Numeric types: uint, uint8..uint64, uintptr): ^x of an unsigned constant is folded within the type's width"},
		{"isNumeric", types.IsInteger | types.IsFloat | types.IsComplex, "numeric types"},
	}
	for _, row := range table {
		fd, p := needDecl(c, rule, row.fn)
		if fd == nil {
			continue
		}
		info := p.TypesInfo
		obj, ret, locals := basicArm(info, fd)
		if obj == nil || ret == nil {
			c.Undecided(rule, row.fn+"/shape", fd.Pos(), "no `case *types.Basic: return <expr>` arm found")
			continue
		}
		bad := ""
		und := false
		n := 0
		for k := types.Bool; k <= types.UntypedNil; k++ {
			b := types.Typ[k]
			ev := &kindEval{info: info, basic: obj, locals: locals, k: b}
			v, ok := ev.eval(ret)
			if !ok || v.Kind() != constant.Bool {
				und = true
				break
			}
			n++
			want := b.Info()&row.flag != 0
			if constant.BoolVal(v) != want {
				bad += sprintf(" %s:%v(want %v)", b.Name(), constant.BoolVal(v), want)
			}
		}
		if und {
			c.Undecided(rule, row.fn+"/evaluable", ret.Pos(), "the classification expression %s is not a combination of Kind()/Info() comparisons with constants", exprString(ret))
			continue
		}
		c.Check(bad == "", rule, row.fn+"/agrees-with-go-types", ret.Pos(),
			"%s evaluated for all %d basic kinds must classify exactly the %s; differs for:%s", row.fn, n, row.what, bad)
	}
}

// scopedOverrides: a function that overrides a field of the builder for the duration of a call and puts
// it back in a deferred function must put back the value the field had on entry: the value restored is
// read from the field before the field is overwritten (a `defer func(old T){...}(x.f)` placed after the
// overwrite captures the new value and restores nothing).
func scopedOverrides(c *fw.Ctx, rule string, floor int) {
	p := c.Pkg("")
	info := p.TypesInfo
	n := 0
	for _, fd := range c.Decls() {
		if c.PkgOfDecl(fd) != p || fd.Body == nil {
			continue
		}
		fname := declName(c, fd)
		for _, st := range fd.Body.List {
			ds, ok := st.(*ast.DeferStmt)
			if !ok {
				continue
			}
			fl, ok := ds.Call.Fun.(*ast.FuncLit)
			if !ok {
				continue
			}
			// restores: assignments `X.f = v` at the top level of the deferred body
			for _, dst := range fl.Body.List {
				as, ok := dst.(*ast.AssignStmt)
				if !ok || as.Tok != token.ASSIGN || len(as.Lhs) != 1 || len(as.Rhs) != 1 {
					continue
				}
				sel, ok := unparen(as.Lhs[0]).(*ast.SelectorExpr)
				if !ok {
					continue
				}
				fv, ok := info.Uses[sel.Sel].(*types.Var)
				if !ok || !fv.IsField() {
					continue
				}
				target := exprString(sel)
				// first overwrite of the same field outside the deferred function
				first := token.NoPos
				ast.Inspect(fd.Body, func(m ast.Node) bool {
					if m == ast.Node(fl) {
						return false
					}
					if a2, ok := m.(*ast.AssignStmt); ok {
						for _, l := range a2.Lhs {
							if s2, ok := unparen(l).(*ast.SelectorExpr); ok && info.Uses[s2.Sel] == fv && exprString(s2) == target {
								if first == token.NoPos || a2.Pos() < first {
									first = a2.Pos()
								}
							}
						}
					}
					return true
				})
				if first == token.NoPos {
					continue // not an override/restore pair
				}
				n++
				key := fname + "/restores-entry-value(" + fv.Name() + ")"
				// where does the restored value come from?
				vid, ok := unparen(as.Rhs[0]).(*ast.Ident)
				if !ok {
					c.Undecided(rule, key, as.Pos(), "the restored value %s is not a saved variable", exprString(as.Rhs[0]))
					continue
				}
				vo := info.Uses[vid]
				savedAt := token.NoPos
				// (a) parameter of the deferred function: evaluated at the defer statement
				pi := 0
				for _, f := range fl.Type.Params.List {
					for _, nm := range f.Names {
						if info.Defs[nm] == vo && pi < len(ds.Call.Args) {
							if a, ok := unparen(ds.Call.Args[pi]).(*ast.SelectorExpr); ok && info.Uses[a.Sel] == fv && exprString(a) == target {
								savedAt = ds.Pos()
							}
						}
						pi++
					}
				}
				// (b) local saved earlier: v := X.f
				ast.Inspect(fd.Body, func(m ast.Node) bool {
					if a2, ok := m.(*ast.AssignStmt); ok && len(a2.Lhs) == len(a2.Rhs) {
						for i, l := range a2.Lhs {
							if id, ok := unparen(l).(*ast.Ident); ok && (info.Defs[id] == vo || info.Uses[id] == vo) {
								if a, ok := unparen(a2.Rhs[i]).(*ast.SelectorExpr); ok && info.Uses[a.Sel] == fv && exprString(a) == target {
									if savedAt == token.NoPos {
										savedAt = a2.Pos()
									}
								}
							}
						}
					}
					return true
				})
				if savedAt == token.NoPos {
					c.Undecided(rule, key, as.Pos(), "cannot find where the restored value %s was read from %s", vid.Name, target)
					continue
				}
				c.Check(savedAt < first, rule, key, as.Pos(),
					"%s is overridden for the duration of the call and restored on exit; the value put back must be read before the override (read at %s, override at %s): otherwise the override leaks into everything built afterwards",
					target, c.Position(savedAt), c.Position(first))
			}
		}
	}
	c.Floor(rule, "scoped field overrides", n, floor)
}
