package rules

import (
	"go/ast"
	"go/token"
	"go/types"
	"strings"

	"gogenvet/fw"
)

// checkerFuncs: the predicates/checkers whose verdict decides acceptance.
func isCheckerFunc(fn *types.Func) bool {
	if fn == nil || fn.Pkg() == nil {
		return false
	}
	sig, _ := fn.Type().(*types.Signature)
	if sig == nil || sig.Results().Len() == 0 {
		return false
	}
	switch fn.Pkg().Path() {
	case fw.Mod:
		if sig.Recv() != nil {
			// contract / instruction methods: Contract.Match
			return fn.Name() == "Match"
		}
		switch fn.Name() {
		case "matchType", "matchFuncType", "matchFuncArgs", "matchArgType", "matchVariadicArgs", "matchElemType",
			"AssignableTo", "AssignableConv", "ComparableTo", "ConvertibleTo", "checkUntypedOverflows",
			"matchFuncCall", "matchTypeCast", "matchRcast", "matchOverloadNamedTypeCast", "assignableTo", "assignable",
			"untypedComparable", "isComparable":
			return true
		}
	case "go/types":
		switch fn.Name() {
		case "AssignableTo", "ConvertibleTo", "Comparable", "MissingMethod", "Implements", "Satisfies":
			return sig.Recv() == nil
		}
	}
	return false
}

// R1.2: the verdict (last bool or error result) of every checker call is consumed.
func r12(c *fw.Ctx) {
	const rule = "R1.2"
	errT := types.Universe.Lookup("error").Type()
	n := 0
	for _, p := range c.AnalysedPkgs() {
		if p.PkgPath != fw.Mod {
			continue
		}
		info := p.TypesInfo
		for _, fd := range c.Decls() {
			if c.PkgOfDecl(fd) != p || fd.Body == nil {
				continue
			}
			fname := declName(c, fd)
			// named results of the enclosing function (a bare return consumes them)
			namedRes := map[types.Object]bool{}
			if fd.Type.Results != nil {
				for _, f := range fd.Type.Results.List {
					for _, nm := range f.Names {
						namedRes[info.Defs[nm]] = true
					}
				}
			}
			counts := map[string]int{}
			var stack []ast.Node
			ast.Inspect(fd.Body, func(nd ast.Node) bool {
				if nd == nil {
					stack = stack[:len(stack)-1]
					return true
				}
				stack = append(stack, nd)
				call, ok := nd.(*ast.CallExpr)
				if !ok {
					return true
				}
				fn, _ := callee(info, call).(*types.Func)
				if !isCheckerFunc(fn) {
					return true
				}
				sig := fn.Type().(*types.Signature)
				vi := sig.Results().Len() - 1 // verdict = last result
				vt := sig.Results().At(vi).Type()
				if fn.Name() == "MissingMethod" {
					vi = 0 // the verdict is the method result: non-nil = a method is missing
				} else if !(types.Identical(vt, errT) || types.Identical(vt.Underlying(), types.Typ[types.Bool])) {
					return true
				}
				n++
				base := fname + "/" + fw.FuncName(fn)
				counts[base]++
				key := sprintf("%s#%d", base, counts[base])
				pi := len(stack) - 2
				for pi >= 0 {
					if _, isParen := stack[pi].(*ast.ParenExpr); !isParen {
						break
					}
					pi--
				}
				parent := stack[pi]
				switch pe := parent.(type) {
				case *ast.ExprStmt:
					c.Violate(rule, key, call.Pos(), "the verdict of %s is discarded: the call is a statement", fw.FuncName(fn))
				case *ast.AssignStmt:
					if len(pe.Rhs) != 1 || vi >= len(pe.Lhs) {
						c.OK(rule, key, call.Pos(), "verdict is part of a tuple assignment")
						return true
					}
					lhs := unparen(pe.Lhs[vi])
					id, ok := lhs.(*ast.Ident)
					if !ok {
						c.OK(rule, key, call.Pos(), "verdict stored in %s", exprString(lhs))
						return true
					}
					if id.Name == "_" {
						c.Violate(rule, key, call.Pos(), "the verdict of %s is assigned to the blank identifier", fw.FuncName(fn))
						return true
					}
					o := info.Defs[id]
					if o == nil {
						o = info.Uses[id]
					}
					if namedRes[o] {
						c.OK(rule, key, call.Pos(), "verdict stored in the named result %s (returned)", id.Name)
						return true
					}
					// read somewhere after the assignment?
					read := false
					ast.Inspect(fd.Body, func(m ast.Node) bool {
						if u, ok := m.(*ast.Ident); ok && info.Uses[u] == o && u.Pos() > call.End() {
							// not a pure re-assignment target
							read = true
						}
						return true
					})
					// a use inside the same statement (if err := f(); err != nil) comes after call.End() as well
					c.Check(read, rule, key, call.Pos(), "the verdict of %s is stored in %s, which %s", fw.FuncName(fn), id.Name,
						map[bool]string{true: "is read afterwards", false: "is never read afterwards: the verdict is dropped"}[read])
				default:
					// operand of a condition, unary !, && / ||, return, argument of panic/another call, if/switch tag
					c.OK(rule, key, call.Pos(), "verdict used in place (%T)", parent)
				}
				return true
			})
		}
	}
	c.Floor(rule, "checker calls", n, 60)
}

// R1.3: in the function that builds the conversion node, every normal path to the node passes the
// true edge of a one-argument test and of a convertibility verdict.
func r13(c *fw.Ctx) {
	const rule = "R1.3"
	fd, p := needDecl(c, rule, "matchTypeCast")
	if fd == nil {
		return
	}
	info := p.TypesInfo
	// the conversion node: a composite literal of go/ast.CallExpr whose Fun is (derived from) the callee operand
	var node *ast.CompositeLit
	ast.Inspect(fd.Body, func(n ast.Node) bool {
		if cl, ok := n.(*ast.CompositeLit); ok && namedIs(info.TypeOf(cl), "go/ast", "CallExpr") {
			for _, el := range cl.Elts {
				if kv, ok := el.(*ast.KeyValueExpr); ok && exprString(kv.Key) == "Fun" {
					node = cl
				}
			}
		}
		return true
	})
	if node == nil {
		c.Undecided(rule, "matchTypeCast/conversion-node", fd.Pos(), "no CallExpr literal with a Fun field found: the function no longer builds the conversion where the rule looks")
		return
	}
	paths, trunc := enumPaths(info, fd.Body)
	if trunc {
		c.Undecided(rule, "matchTypeCast/paths", fd.Pos(), "too many paths")
		return
	}
	isConvertible := func(e ast.Expr) bool {
		call, ok := unparen(e).(*ast.CallExpr)
		if !ok {
			return false
		}
		fn, _ := callee(info, call).(*types.Func)
		return fn != nil && (fn.Name() == "ConvertibleTo") && fn.Pkg() != nil && (fn.Pkg().Path() == fw.Mod || fn.Pkg().Path() == "go/types")
	}
	isOneArg := func(e ast.Expr) bool {
		be, ok := unparen(e).(*ast.BinaryExpr)
		if !ok || be.Op != token.EQL {
			return false
		}
		k, ok := constInt(info, be.Y)
		if !ok || k != 1 {
			return false
		}
		call, ok := unparen(be.X).(*ast.CallExpr)
		if !ok || len(call.Args) != 1 {
			return false
		}
		id, ok := unparen(call.Fun).(*ast.Ident)
		return ok && id.Name == "len" && isElemSlice(info.TypeOf(call.Args[0]))
	}
	// paths are split into those that jump to the node explicitly (goto) and those that fall into it
	type tally struct {
		nTo, nConv, nOne int
		badConv, badOne  string
	}
	tl := map[string]*tally{"goto-paths": {}, "fallthrough-paths": {}}
	// conditions whose then-branch ends in an explicit jump to the node's label
	gotoConds := map[ast.Expr]bool{}
	{
		var stack []ast.Node
		ast.Inspect(fd.Body, func(n ast.Node) bool {
			if n == nil {
				stack = stack[:len(stack)-1]
				return true
			}
			stack = append(stack, n)
			if br, ok := n.(*ast.BranchStmt); ok && br.Tok == token.GOTO && br.Pos() < node.Pos() {
				for i := 0; i < len(stack); i++ {
					if is, ok := stack[i].(*ast.IfStmt); ok && is.Body.Pos() <= br.Pos() && br.End() <= is.Body.End() {
						gotoConds[is.Cond] = true
						break
					}
				}
			}
			return true
		})
	}
	nTo := 0
	for _, pa := range paths {
		if pa.Abnormal {
			continue
		}
		reaches, viaGoto := false, false
		for _, n := range pa.Nodes {
			if n.Pos() <= node.Pos() && node.End() <= n.End() {
				reaches = true
			}
		}
		for _, f := range pa.Facts {
			if f.Val && gotoConds[f.Cond] {
				viaGoto = true
			}
		}
		if !reaches {
			continue
		}
		nTo++
		t := tl["fallthrough-paths"]
		if viaGoto {
			t = tl["goto-paths"]
		}
		t.nTo++
		conv, one := false, false
		var trail []string
		for _, f := range expandFacts(pa.Facts) {
			if f.Cond.End() > node.Pos() {
				continue // established after the node was built
			}
			if f.Val && isConvertible(f.Cond) {
				conv = true
			}
			if f.Val && isOneArg(f.Cond) {
				one = true
			}
			if len(trail) < 6 {
				trail = append(trail, sprintf("%s=%v", exprString(f.Cond), f.Val))
			}
		}
		if conv {
			t.nConv++
		} else if t.badConv == "" {
			t.badConv = strings.Join(trail, "; ")
		}
		if one {
			t.nOne++
		} else if t.badOne == "" {
			t.badOne = strings.Join(trail, "; ")
		}
	}
	if nTo == 0 {
		c.Undecided(rule, "matchTypeCast/conversion-node/reachable", node.Pos(), "no normal path reaches the conversion node")
		return
	}
	for _, kind := range []string{"goto-paths", "fallthrough-paths"} {
		t := tl[kind]
		if t.nTo == 0 {
			c.OK(rule, "matchTypeCast/conversion-node/"+kind+"/none", node.Pos(), "no %s reach the conversion node", kind)
			continue
		}
		c.Check(t.nConv == t.nTo, rule, "matchTypeCast/conversion-node/"+kind+"/dominated-by-convertibility", node.Pos(),
			"%d of %d normal %s to the conversion node pass the true edge of a ConvertibleTo verdict; e.g. not: %s", t.nConv, t.nTo, kind, t.badConv)
		c.Check(t.nOne == t.nTo, rule, "matchTypeCast/conversion-node/"+kind+"/one-argument", node.Pos(),
			"%d of %d normal %s to the conversion node pass the true edge of len(args) == 1; e.g. not: %s", t.nOne, t.nTo, kind, t.badOne)
	}
	c.Units[rule+" paths to the conversion node"] = nTo
}

// expandFacts splits conjunctions that hold and disjunctions that fail into their operands, and
// strips negations.
func expandFacts(facts []pathFact) []pathFact {
	var out []pathFact
	at := 0
	var add func(e ast.Expr, v bool)
	add = func(e ast.Expr, v bool) {
		e = unparen(e)
		switch x := e.(type) {
		case *ast.UnaryExpr:
			if x.Op == token.NOT {
				add(x.X, !v)
				return
			}
		case *ast.BinaryExpr:
			if (x.Op == token.LAND && v) || (x.Op == token.LOR && !v) {
				add(x.X, v)
				add(x.Y, v)
				return
			}
		}
		out = append(out, pathFact{Cond: e, Val: v, At: at})
	}
	for _, f := range facts {
		at = f.At
		add(f.Cond, f.Val)
	}
	return out
}
