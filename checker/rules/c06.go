package rules

import (
	"go/ast"
	"go/constant"
	"go/token"
	"go/types"
	"sort"
	"strings"

	"golang.org/x/tools/go/packages"
	"golang.org/x/tools/go/ssa"

	"gogenvet/fw"
)

func init() {
	register("C06", Prop{
		NeedSSA: true,
		Run:     runC06,
		Explanation: "R6.1 every candidate loop (a loop whose body tries a candidate with a recursive matchFuncCall) iterates the candidate list in ascending order from the first element, returns immediately on the first success, restores the arguments from the backup taken before the loop on every failure edge back to the loop head (a failure edge that leaves the loop unrestored may only reach an error return), and does not reassign the argument slice; " +
			"R6.2 the backup covers every Elem field a failed candidate can write: the fields stored through parameter-derived *Elem pointers in all functions reachable from matchFuncCall are a subset of the fields backupArgs saves and restoreArgs restores (which agree); " +
			"R6.3 the object reported to the recorder is the loop variable of the successful iteration; " +
			"R6.4 overload family slots follow the name suffix: the slot index is toIndex of the same item's name at the suffix offset, range-checked and duplicate-checked before the store; indexTable is the inverse of toIndex",
		NotDecided: "applicability of a candidate (delegated to the call matcher, C01/C05); in-place edits of shared syntax nodes by failed candidates",
	})
}

func runC06(c *fw.Ctx) {
	r61(c)
	r62(c)
	r64(c)
	r65(c)
}

// R6.5: applicability of a candidate is decided on all arguments: the check loops of the functions that
// receive the candidate's argument list cover every element.
func r65(c *fw.Ctx) {
	checkLoopsIn(c, "R6.5", argListReceivers(c))
}

// argListReceivers: matchFuncCall and, transitively, the functions of the root package it calls statically
// that take an operand list ([]*Elem) - the functions that see a candidate's arguments.
func argListReceivers(c *fw.Ctx) map[*types.Func]bool {
	p := c.Pkg("")
	info := p.TypesInfo
	set := map[*types.Func]bool{}
	root := c.LookupFunc("matchFuncCall")
	if root == nil {
		return set
	}
	work := []*types.Func{root}
	set[root] = true
	for len(work) > 0 {
		fn := work[len(work)-1]
		work = work[:len(work)-1]
		fd := c.DeclOf(fn)
		if fd == nil || fd.Body == nil {
			continue
		}
		ast.Inspect(fd.Body, func(n ast.Node) bool {
			call, ok := n.(*ast.CallExpr)
			if !ok {
				return true
			}
			cal, _ := callee(info, call).(*types.Func)
			if cal == nil || cal.Pkg() != p.Types || set[cal] {
				return true
			}
			sig := cal.Type().(*types.Signature)
			takes := false
			for i := 0; i < sig.Params().Len(); i++ {
				if isElemSlice(sig.Params().At(i).Type()) {
					takes = true
				}
			}
			if takes && sig.Recv() == nil {
				set[cal] = true
				work = append(work, cal)
			}
			return true
		})
	}
	return set
}

func containsCall(info *types.Info, n ast.Node, pkg, name string) *ast.CallExpr {
	var found *ast.CallExpr
	ast.Inspect(n, func(m ast.Node) bool {
		if call, ok := m.(*ast.CallExpr); ok && found == nil && isFunc(callee(info, call), pkg, name) {
			found = call
		}
		return found == nil
	})
	return found
}

func r61(c *fw.Ctx) {
	const rule = "R6.1"
	p := c.Pkg("")
	info := p.TypesInfo
	nLoops := 0
	for _, fd := range c.Decls() {
		if c.PkgOfDecl(fd) != p || fd.Body == nil {
			continue
		}
		fname := declName(c, fd)
		// backups of this function: backup := backupArgs(args)
		type bk struct {
			v, args types.Object
			pos     token.Pos
		}
		var backups []bk
		inspectFunc(fd, func(n ast.Node) bool {
			if as, ok := n.(*ast.AssignStmt); ok && len(as.Lhs) == 1 && len(as.Rhs) == 1 {
				if call, ok := as.Rhs[0].(*ast.CallExpr); ok && isFunc(callee(info, call), fw.Mod, "backupArgs") && len(call.Args) == 1 {
					l, _ := as.Lhs[0].(*ast.Ident)
					a, _ := unparen(call.Args[0]).(*ast.Ident)
					if l != nil && a != nil {
						backups = append(backups, bk{info.Defs[l], info.Uses[a], as.Pos()})
					}
				}
			}
			return true
		})
		k := 0
		inspectFunc(fd, func(n ast.Node) bool {
			var body *ast.BlockStmt
			var loopVar types.Object
			ascending := false
			var candList string
			switch x := n.(type) {
			case *ast.RangeStmt:
				body = x.Body
				if id, ok := x.Value.(*ast.Ident); ok {
					loopVar = info.Defs[id]
				}
				// ranging directly over a field (ft.Funcs / ft.Methods) or a variable: ascending by construction
				switch unparen(x.X).(type) {
				case *ast.SelectorExpr, *ast.Ident:
					ascending = true
				}
				candList = exprString(x.X)
			case *ast.ForStmt:
				body = x.Body
				if as, ok := x.Init.(*ast.AssignStmt); ok && len(as.Rhs) == 1 {
					if v, ok := constInt(info, as.Rhs[0]); ok && v == 0 {
						if inc, ok := x.Post.(*ast.IncDecStmt); ok && inc.Tok == token.INC {
							ascending = true
						}
					}
				}
				candList = "for-counter"
			default:
				return true
			}
			// a candidate loop tries candidates with matchFuncCall directly in its body (not in a nested loop)
			direct := false
			var tryIf *ast.IfStmt
			for _, st := range body.List {
				ast.Inspect(st, func(m ast.Node) bool {
					switch y := m.(type) {
					case *ast.ForStmt, *ast.RangeStmt:
						return false
					case *ast.IfStmt:
						if y.Init != nil && containsCall(info, y.Init, fw.Mod, "matchFuncCall") != nil && tryIf == nil {
							tryIf = y
							direct = true
						}
					}
					return true
				})
			}
			if !direct || containsCall(info, body, fw.Mod, "restoreArgs") == nil && len(backups) == 0 {
				return true
			}
			nLoops++
			k++
			key := sprintf("%s/candidate-loop#%d(%s)", fname, k, candList)
			c.Check(ascending, rule, key+"/ascending-order", n.Pos(), "candidates must be tried in ascending index order from the first one (first match wins)")
			// success: `if ret, err = matchFuncCall(...); err == nil { ...; return }`
			succ := exprString(tryIf.Cond) == "err == nil" && endsInReturn(tryIf.Body) && tryIf.Else == nil
			c.Check(succ, rule, key+"/first-success-returns", tryIf.Pos(), "the first successful candidate must be returned immediately")
			// the candidate tried is the loop's candidate
			if loopVar != nil {
				uses := false
				ast.Inspect(body, func(m ast.Node) bool {
					if id, ok := m.(*ast.Ident); ok && info.Uses[id] == loopVar && id.Pos() < tryIf.Cond.Pos() {
						uses = true
					}
					return true
				})
				c.Check(uses, rule, key+"/tries-loop-candidate", tryIf.Pos(), "the call that is tried must be built from the loop's candidate")
			}
			// failure edges: statements after the try-if, at the nesting level of the try-if
			var after []ast.Stmt
			var findAfter func(list []ast.Stmt) bool
			findAfter = func(list []ast.Stmt) bool {
				for i, st := range list {
					if st == ast.Stmt(tryIf) {
						after = list[i+1:]
						return true
					}
				}
				return false
			}
			if !findAfter(body.List) {
				// nested one level (e.g. inside `if denoted != nil {` within the loop) is not expected
				c.Undecided(rule, key+"/shape", tryIf.Pos(), "the try statement is not a direct statement of the loop body")
				return true
			}
			restored := false
			var restoreCall *ast.CallExpr
			leaveUnrestored := false
			for _, st := range after {
				if es, ok := st.(*ast.ExprStmt); ok {
					if call, ok := es.X.(*ast.CallExpr); ok && isFunc(callee(info, call), fw.Mod, "restoreArgs") {
						restored, restoreCall = true, call
						continue
					}
				}
				if !restored {
					// a conditional break before the restore
					ast.Inspect(st, func(m ast.Node) bool {
						if b, ok := m.(*ast.BranchStmt); ok && b.Tok == token.BREAK {
							leaveUnrestored = true
						}
						return true
					})
				}
			}
			c.Check(restored, rule, key+"/failure-restores-args", tryIf.End(), "a failed candidate must be followed by restoreArgs before the next candidate is tried (failed matches rewrite argument expressions and types in place)")
			if restoreCall != nil && len(restoreCall.Args) == 2 {
				a, _ := unparen(restoreCall.Args[0]).(*ast.Ident)
				b, _ := unparen(restoreCall.Args[1]).(*ast.Ident)
				okPair := false
				for _, bk := range backups {
					if a != nil && b != nil && info.Uses[a] == bk.args && info.Uses[b] == bk.v && bk.pos < n.Pos() {
						okPair = true
					}
				}
				c.Check(okPair, rule, key+"/restores-from-pre-loop-backup", restoreCall.Pos(), "restoreArgs must restore the argument slice from the backup taken of that same slice before the loop")
				// args not reassigned inside the loop
				reassigned := false
				if a != nil {
					ast.Inspect(body, func(m ast.Node) bool {
						if as, ok := m.(*ast.AssignStmt); ok {
							for _, l := range as.Lhs {
								if id, ok := l.(*ast.Ident); ok && (info.Uses[id] == info.Uses[a]) {
									reassigned = true
								}
							}
						}
						return true
					})
				}
				c.Check(!reassigned, rule, key+"/args-not-reassigned", body.Pos(), "the argument slice must not be reassigned inside the candidate loop (the backup would no longer describe it)")
			}
			if leaveUnrestored {
				// after the loop only an error return may follow
				okExit := loopFollowedByReturnOnly(fd, n)
				c.Check(okExit, rule, key+"/unrestored-exit-is-error-return", n.End(), "a failure edge that leaves the loop without restoring the arguments must reach only an error return")
			}
			// R6.3 recorder
			ast.Inspect(tryIf.Body, func(m ast.Node) bool {
				if call, ok := m.(*ast.CallExpr); ok {
					if sel, ok := unparen(call.Fun).(*ast.SelectorExpr); ok && sel.Sel.Name == "Call" && strings.HasSuffix(exprString(sel.X), ".rec") && len(call.Args) == 2 {
						okObj := false
						if id, ok := unparen(call.Args[1]).(*ast.Ident); ok && loopVar != nil && info.Uses[id] == loopVar {
							okObj = true
						}
						if loopVar == nil {
							okObj = true // counter loop: the single template function is reported
						}
						c.Check(okObj, "R6.3", key+"/recorder-gets-chosen-candidate", call.Pos(), "the recorder must be told the candidate of the successful iteration, got %s", exprString(call.Args[1]))
					}
				}
				return true
			})
			return true
		})
	}
	c.Floor(rule, "candidate loops", nLoops, 3)
}

// loopFollowedByReturnOnly: in the statement list containing loop, everything after it up to the end of
// the enclosing case/block is a bare return (possibly after closing braces).
func loopFollowedByReturnOnly(fd *ast.FuncDecl, loop ast.Node) bool {
	ok := false
	ast.Inspect(fd.Body, func(n ast.Node) bool {
		var list []ast.Stmt
		switch x := n.(type) {
		case *ast.BlockStmt:
			list = x.List
		case *ast.CaseClause:
			list = x.Body
		}
		for i, st := range list {
			if st == loop {
				rest := list[i+1:]
				if len(rest) == 0 {
					ok = true // falls out of the block: checked by the caller's structure (enclosing if → return)
				}
				if len(rest) == 1 {
					if _, isRet := rest[0].(*ast.ReturnStmt); isRet {
						ok = true
					}
				}
			}
		}
		return true
	})
	return ok
}

// ---------------------------------------------------------------------------

func elemFieldName(idx int) string {
	return []string{"Val", "Type", "CVal", "Src"}[idx]
}

func r62(c *fw.Ctx) {
	const rule = "R6.2"
	p := c.Pkg("")
	info := p.TypesInfo
	// fields saved / restored
	saved, restored := map[string]bool{}, map[string]bool{}
	if fd, _ := needDecl(c, rule, "backupArgs"); fd != nil {
		inspectFunc(fd, func(n ast.Node) bool {
			if sel, ok := n.(*ast.SelectorExpr); ok && isElemPtr(info.TypeOf(sel.X)) {
				saved[sel.Sel.Name] = true
			}
			return true
		})
	}
	if fd, _ := needDecl(c, rule, "restoreArgs"); fd != nil {
		inspectFunc(fd, func(n ast.Node) bool {
			if as, ok := n.(*ast.AssignStmt); ok {
				for _, l := range as.Lhs {
					if sel, ok := unparen(l).(*ast.SelectorExpr); ok && isElemPtr(info.TypeOf(sel.X)) {
						restored[sel.Sel.Name] = true
					}
				}
			}
			return true
		})
	}
	restoreUnconditional(c, rule)
	c.Check(len(saved) > 0 && join(sortedKeys(saved)) == join(sortedKeys(restored)), rule, "backup/saved-equals-restored", token.NoPos,
		"backupArgs saves {%s}, restoreArgs restores {%s}", join(sortedKeys(saved)), join(sortedKeys(restored)))
	// the Elem struct's field order
	elemT, _ := c.Pkg("internal").Types.Scope().Lookup("Elem").Type().Underlying().(*types.Struct)
	if elemT == nil {
		c.Undecided(rule, "anchor/Elem", token.NoPos, "internal.Elem not found")
		return
	}
	// functions reachable from matchFuncCall
	root := c.SSAFunc(c.LookupFunc("matchFuncCall"))
	if root == nil {
		c.Undecided(rule, "anchor/matchFuncCall", token.NoPos, "matchFuncCall not found in SSA")
		return
	}
	cg := c.CallGraph(Coarse)
	reach := map[*ssa.Function]bool{root: true}
	work := []*ssa.Function{root}
	for len(work) > 0 {
		fn := work[len(work)-1]
		work = work[:len(work)-1]
		if nd := cg.Nodes[fn]; nd != nil {
			for _, e := range nd.Out {
				cal := e.Callee.Func
				if cal != nil && !reach[cal] && cal.Pkg != nil && c.IsAnalysed(cal.Pkg.Pkg) {
					reach[cal] = true
					work = append(work, cal)
				}
			}
		}
		for _, an := range fn.AnonFuncs {
			if !reach[an] {
				reach[an] = true
				work = append(work, an)
			}
		}
	}
	c.Units[rule+" functions reachable from matchFuncCall"] = len(reach)
	c.Floor(rule, "functions reachable from matchFuncCall", len(reach), 100)
	// parameter-derived *Elem values
	written := map[string][]string{} // field -> writers
	nStores := 0
	for fn := range reach {
		if fn.Blocks == nil {
			continue
		}
		derived := map[ssa.Value]bool{}
		var isDerived func(v ssa.Value, depth int) bool
		isDerived = func(v ssa.Value, depth int) bool {
			if depth > 8 {
				return false
			}
			if d, ok := derived[v]; ok {
				return d
			}
			derived[v] = false
			r := false
			switch x := v.(type) {
			case *ssa.Parameter:
				r = isElemPtr(x.Type()) || isElemSlice(x.Type())
			case *ssa.FreeVar:
				r = false
			case *ssa.UnOp:
				if x.Op == token.MUL {
					r = isDerived(x.X, depth+1) && (isElemPtr(x.Type()) || isElemSlice(x.Type()))
				}
			case *ssa.IndexAddr:
				r = isDerived(x.X, depth+1)
			case *ssa.Slice:
				r = isDerived(x.X, depth+1)
			case *ssa.Phi:
				for _, e := range x.Edges {
					if isDerived(e, depth+1) {
						r = true
					}
				}
			case *ssa.Extract:
				r = isDerived(x.Tuple, depth+1)
			case *ssa.Next:
				r = isDerived(x.Iter, depth+1)
			case *ssa.Range:
				r = isDerived(x.X, depth+1)
			}
			derived[v] = r
			return r
		}
		for _, b := range fn.Blocks {
			for _, ins := range b.Instrs {
				st, ok := ins.(*ssa.Store)
				if !ok {
					continue
				}
				fa, ok := st.Addr.(*ssa.FieldAddr)
				if !ok || !isElemPtr(fa.X.Type()) {
					continue
				}
				if !isDerived(fa.X, 0) {
					continue
				}
				nStores++
				name := elemT.Field(fa.Field).Name()
				top := fn
				for top.Parent() != nil {
					top = top.Parent()
				}
				written[name] = append(written[name], top.Name())
			}
		}
	}
	c.Units[rule+" stores into argument elements"] = nStores
	c.Floor(rule, "stores into argument elements", nStores, 8)
	for _, f := range sortedKeys(written) {
		ws := written[f]
		sort.Strings(ws)
		uniq := ws[:0]
		for i, w := range ws {
			if i == 0 || w != ws[i-1] {
				uniq = append(uniq, w)
			}
		}
		c.Check(saved[f] && restored[f], rule, "written-field/"+f, token.NoPos,
			"functions reachable from a candidate match write the argument field %s (writers: %s), which the backup does not cover: a rejected candidate leaves a trace in the emitted call", f, strings.Join(uniq, ", "))
	}
}

func isElemSlice(t types.Type) bool {
	s, ok := types.Unalias(t).Underlying().(*types.Slice)
	return ok && isElemPtr(s.Elem())
}

// ---------------------------------------------------------------------------

func r64(c *fw.Ctx) {
	const rule = "R6.4"
	for _, name := range []string{"overloadFuncs", "overloadNameds"} {
		fd, p := needDecl(c, rule, name)
		if fd == nil {
			continue
		}
		r64slots(c, p, fd, name)
	}
	// indexTable is the inverse of toIndex
	p := c.Pkg("")
	info := p.TypesInfo
	tbl, _ := p.Types.Scope().Lookup("indexTable").(*types.Const)
	fd, _ := needDecl(c, rule, "toIndex")
	if tbl == nil || fd == nil {
		c.Undecided(rule, "anchor/indexTable", token.NoPos, "indexTable or toIndex not found")
		return
	}
	table := constant.StringVal(tbl.Val())
	// extract (lo, hi, offset) triples from `if c >= lo && c <= hi { return int(c - off) }`
	type rng struct{ lo, hi, off int64 }
	var rs []rng
	okShape := true
	for _, st := range fd.Body.List {
		is, ok := st.(*ast.IfStmt)
		if !ok {
			continue
		}
		be, ok := unparen(is.Cond).(*ast.BinaryExpr)
		if !ok || be.Op != token.LAND {
			okShape = false
			continue
		}
		l, ok1 := unparen(be.X).(*ast.BinaryExpr)
		h, ok2 := unparen(be.Y).(*ast.BinaryExpr)
		if !ok1 || !ok2 || l.Op != token.GEQ || h.Op != token.LEQ {
			okShape = false
			continue
		}
		lo, ok3 := constInt(info, l.Y)
		hi, ok4 := constInt(info, h.Y)
		var off int64
		ok5 := false
		if len(is.Body.List) == 1 {
			if ret, ok := is.Body.List[0].(*ast.ReturnStmt); ok && len(ret.Results) == 1 {
				if call, ok := unparen(ret.Results[0]).(*ast.CallExpr); ok && len(call.Args) == 1 {
					if sub, ok := unparen(call.Args[0]).(*ast.BinaryExpr); ok && sub.Op == token.SUB {
						off, ok5 = constInt(info, sub.Y)
					}
				}
			}
		}
		if !ok3 || !ok4 || !ok5 {
			okShape = false
			continue
		}
		rs = append(rs, rng{lo, hi, off})
	}
	if !okShape || len(rs) == 0 {
		c.Undecided(rule, "toIndex/shape", fd.Pos(), "toIndex is not a chain of `lo <= c <= hi => c - offset` ranges")
		return
	}
	covered := map[int]bool{}
	ok := true
	for _, r := range rs {
		for ch := r.lo; ch <= r.hi; ch++ {
			i := ch - r.off
			if i < 0 || int(i) >= len(table) || int64(table[i]) != ch {
				ok = false
			}
			covered[int(i)] = true
		}
	}
	for i := range table {
		if !covered[i] {
			ok = false
		}
	}
	c.Check(ok, rule, "indexTable/inverse-of-toIndex", tbl.Pos(), "indexTable (%q) must map index i to the character c with toIndex(c) == i for every position", table)
}

func r64slots(c *fw.Ctx, p *packages.Package, fd *ast.FuncDecl, name string) {
	const rule = "R6.4"
	info := p.TypesInfo
	var loop *ast.RangeStmt
	for _, st := range fd.Body.List {
		if rs, ok := st.(*ast.RangeStmt); ok {
			loop = rs
		}
	}
	if loop == nil {
		c.Undecided(rule, name+"/shape", fd.Pos(), "slot loop not found")
		return
	}
	item, _ := loop.Value.(*ast.Ident)
	if item == nil {
		c.Undecided(rule, name+"/shape", loop.Pos(), "loop has no item variable")
		return
	}
	itemObj := info.Defs[item]
	offParam := info.Defs[fd.Type.Params.List[0].Names[0]]
	itemsParam := info.Defs[fd.Type.Params.List[1].Names[0]]
	var idxObj types.Object
	var idxPos, rangePos, dupPos, storePos token.Pos
	idxFromItem, storeItem := false, false
	// local name variable: name := item.Obj().Name()
	nameVars := map[types.Object]bool{}
	for _, st := range loop.Body.List {
		switch s := st.(type) {
		case *ast.AssignStmt:
			if len(s.Lhs) == 1 && len(s.Rhs) == 1 {
				l, _ := s.Lhs[0].(*ast.Ident)
				if call, ok := unparen(s.Rhs[0]).(*ast.CallExpr); ok && isFunc(callee(info, call), fw.Mod, "toIndex") && len(call.Args) == 1 && l != nil {
					idxObj, idxPos = info.Defs[l], s.Pos()
					if ix, ok := unparen(call.Args[0]).(*ast.IndexExpr); ok {
						if oid, ok := unparen(ix.Index).(*ast.Ident); ok && info.Uses[oid] == offParam {
							// the indexed string derives from the item
							if mentionsObj(info, ix.X, itemObj) {
								idxFromItem = true
							}
							if nid, ok := unparen(ix.X).(*ast.Ident); ok && nameVars[info.Uses[nid]] {
								idxFromItem = true
							}
						}
					}
					continue
				}
				if l != nil && s.Tok == token.DEFINE && mentionsObj(info, s.Rhs[0], itemObj) && strings.HasSuffix(exprString(s.Rhs[0]), ".Name()") {
					nameVars[info.Defs[l]] = true
				}
				// store: fns[idx] = item
				if ix, ok := unparen(s.Lhs[0]).(*ast.IndexExpr); ok && idxObj != nil {
					if iid, ok := unparen(ix.Index).(*ast.Ident); ok && info.Uses[iid] == idxObj {
						storePos = s.Pos()
						if rid, ok := unparen(s.Rhs[0]).(*ast.Ident); ok && info.Uses[rid] == itemObj {
							storeItem = true
						}
					}
				}
			}
		case *ast.IfStmt:
			if idxObj == nil || !mentionsObj(info, s.Cond, idxObj) {
				continue
			}
			panics := false
			ast.Inspect(s.Body, func(m ast.Node) bool {
				if call, ok := m.(*ast.CallExpr); ok && !neverReturns(info)(call) {
					panics = true
				}
				return true
			})
			if !panics {
				continue
			}
			if be, ok := unparen(s.Cond).(*ast.BinaryExpr); ok {
				if be.Op == token.GEQ && strings.HasPrefix(exprString(be.Y), "len(") && mentionsObj(info, be.Y, itemsParam) {
					rangePos = s.Pos()
				}
				if be.Op == token.NEQ && exprString(be.Y) == "nil" {
					if ix, ok := unparen(be.X).(*ast.IndexExpr); ok {
						if iid, ok := unparen(ix.Index).(*ast.Ident); ok && info.Uses[iid] == idxObj {
							dupPos = s.Pos()
						}
					}
				}
			}
		}
	}
	c.Check(idxFromItem && idxPos.IsValid(), rule, name+"/index-from-own-suffix", loop.Pos(), "the slot index must be toIndex of the same item's name at the suffix offset")
	c.Check(rangePos.IsValid() && storePos.IsValid() && rangePos < storePos, rule, name+"/index-range-checked", loop.Pos(), "the slot index must be range-checked against the family size before the store")
	c.Check(dupPos.IsValid() && storePos.IsValid() && dupPos < storePos, rule, name+"/slot-written-once", loop.Pos(), "a slot must be tested for a previous occupant before it is written")
	c.Check(storeItem, rule, name+"/stores-the-item", loop.Pos(), "the slot must receive the item whose suffix selected it")
	// the result slice has one slot per item
	sized := false
	inspectFunc(fd, func(n ast.Node) bool {
		if call, ok := n.(*ast.CallExpr); ok {
			if id, ok := unparen(call.Fun).(*ast.Ident); ok && id.Name == "make" && len(call.Args) == 2 && strings.HasPrefix(exprString(call.Args[1]), "len(") && mentionsObj(info, call.Args[1], itemsParam) {
				sized = true
			}
		}
		return true
	})
	c.Check(sized, rule, name+"/one-slot-per-item", fd.Pos(), "the family must have exactly one slot per item")
}

func restoreUnconditional(c *fw.Ctx, rule string) {
	// the restore is unconditional: every argument gets every saved field back on every call. A guard is
	// tolerated only when it is a disjunction of `arg.f != backup.f` tests naming every field restored under
	// it (then a skipped restore would have been a no-op)
	if fd, p := needDecl(c, rule, "restoreArgs"); fd != nil {
		info := p.TypesInfo
		var stack []ast.Node
		ok := true
		why := ""
		ast.Inspect(fd.Body, func(n ast.Node) bool {
			if n == nil {
				stack = stack[:len(stack)-1]
				return true
			}
			stack = append(stack, n)
			as, isAs := n.(*ast.AssignStmt)
			if !isAs {
				return true
			}
			fields := map[string]bool{}
			for _, l := range as.Lhs {
				if sel, isSel := unparen(l).(*ast.SelectorExpr); isSel && isElemPtr(info.TypeOf(sel.X)) {
					fields[sel.Sel.Name] = true
				}
			}
			if len(fields) == 0 {
				return true
			}
			for i := len(stack) - 2; i >= 0; i-- {
				switch g := stack[i].(type) {
				case *ast.IfStmt:
					tested := map[string]bool{}
					pure := true
					var split func(e ast.Expr)
					split = func(e ast.Expr) {
						e = unparen(e)
						if be, isBin := e.(*ast.BinaryExpr); isBin {
							if be.Op == token.LOR {
								split(be.X)
								split(be.Y)
								return
							}
							if be.Op == token.NEQ {
								if sel, isSel := unparen(be.X).(*ast.SelectorExpr); isSel && isElemPtr(info.TypeOf(sel.X)) {
									tested[sel.Sel.Name] = true
									return
								}
							}
						}
						pure = false
					}
					split(g.Cond)
					inThen := g.Body.Pos() <= as.Pos() && as.End() <= g.Body.End()
					for f := range fields {
						if !pure || !tested[f] || !inThen {
							ok = false
							why = sprintf("the restore of %s is guarded by `%s`", f, exprString(g.Cond))
						}
					}
				case *ast.SwitchStmt, *ast.TypeSwitchStmt, *ast.SelectStmt:
					ok = false
					why = "the restore sits inside a switch"
				}
			}
			return true
		})
		c.Check(ok, rule, "restore/unconditional", fd.Pos(), "restoreArgs must give every argument its saved fields back unconditionally: %s — a conversion that rewrites a field the guard does not test survives into the next candidate", why)
	}
}
