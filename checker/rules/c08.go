package rules

import (
	"go/ast"
	"go/token"
	"go/types"
	"strings"

	"golang.org/x/tools/go/ssa"

	"gogenvet/fw"
)

func init() {
	register("C08", Prop{
		NeedSSA: true,
		Run:     runC08,
		Explanation: "R8.1 no first-hit recursive descent: a function that iterates the embedded fields of a struct and returns the first successful result of a (transitively) recursive lookup implements depth-first search, which contradicts Go's rule that the shallowest depth wins and equal depths are ambiguous; " +
			"R8.2 visibility before name match: in every member-lookup loop over the fields or methods of a type, the comparison of the member's name with the requested name is preceded by the allowAccess test on the same member (sibling cross-check: value side vs reference side)",
		NotDecided: "pointer-receiver / addressability rules, the reported kind and type of the designated member",
	})
}

func runC08(c *fw.Ctx) {
	r81(c)
	r82(c)
	r83(c)
	methodExprReceiver(c, "R8.4")
	r85(c)
}

func r81(c *fw.Ctx) {
	const rule = "R8.1"
	p := c.Pkg("")
	info := p.TypesInfo
	cg := c.CallGraph(Coarse)
	// reachability between functions of package gogen (restricted to the package: lookups do not leave it)
	reaches := func(from, to *ssa.Function) bool {
		seen := map[*ssa.Function]bool{}
		var dfs func(f *ssa.Function) bool
		dfs = func(f *ssa.Function) bool {
			if f == to {
				return true
			}
			if seen[f] {
				return false
			}
			seen[f] = true
			if nd := cg.Nodes[f]; nd != nil {
				for _, e := range nd.Out {
					cal := e.Callee.Func
					if cal != nil && cal.Pkg != nil && cal.Pkg.Pkg == p.Types && dfs(cal) {
						return true
					}
				}
			}
			return false
		}
		return dfs(from)
	}
	n := 0
	for _, fd := range c.Decls() {
		if c.PkgOfDecl(fd) != p || fd.Body == nil {
			continue
		}
		fnObj, _ := info.Defs[fd.Name].(*types.Func)
		self := c.SSAFunc(fnObj)
		if self == nil {
			continue
		}
		fname := declName(c, fd)
		// loops over struct fields: `for i, n := 0, o.NumFields(); ...` or range over a slice of embedded fields collected from o.Field(i)
		inspectFunc(fd, func(m ast.Node) bool {
			var body *ast.BlockStmt
			switch x := m.(type) {
			case *ast.ForStmt:
				if x.Init != nil && strings.Contains(nodeText(x.Init), "NumFields()") {
					body = x.Body
				}
			case *ast.RangeStmt:
				// range over a []*types.Var of embedded fields
				if t := info.TypeOf(x.X); t != nil && t.String() == "[]*go/types.Var" {
					body = x.Body
				}
			}
			if body == nil {
				return true
			}
			// inside: an early return that depends on a call which reaches this function again
			ast.Inspect(body, func(k ast.Node) bool {
				is, ok := k.(*ast.IfStmt)
				if !ok {
					return true
				}
				var call *ast.CallExpr
				find := func(e ast.Node) {
					ast.Inspect(e, func(q ast.Node) bool {
						if cl, ok := q.(*ast.CallExpr); ok && call == nil {
							if fn, ok := callee(info, cl).(*types.Func); ok && fn != nil && fn.Pkg() == p.Types {
								if sf := c.SSAFunc(fn); sf != nil && (sf == self || reaches(sf, self)) {
									call = cl
								}
							}
						}
						return true
					})
				}
				if is.Init != nil {
					find(is.Init)
				}
				find(is.Cond)
				if call == nil {
					return true
				}
				returns := false
				ast.Inspect(is.Body, func(q ast.Node) bool {
					if _, ok := q.(*ast.ReturnStmt); ok {
						returns = true
					}
					return true
				})
				if !returns {
					return true
				}
				n++
				c.Violate(rule, fname+"/first-hit-recursive-descent", is.Pos(),
					"%s walks the embedded fields of a struct and returns the first successful result of the recursive lookup %s: depth-first search — a member found at depth 2 under the first embedded field wins over a depth-1 member of a later one, and equal-depth duplicates are never reported as ambiguous", fname, exprString(call.Fun))
				return false
			})
			return true
		})
	}
	c.Units[rule+" recursive first-hit lookups"] = n
	// vacuity: the lookup functions the rule is about exist
	for _, name := range []string{"(*CodeBuilder).findMember", "(*CodeBuilder).embeddedField", "(*CodeBuilder).fieldRef"} {
		if c.LookupFunc(name) == nil {
			c.Undecided(rule, "anchor/"+name, token.NoPos, "lookup function %s not found: if the member search was rewritten, re-read it and update the anchors", name)
		}
	}
	if n == 0 {
		c.OK(rule, "no-first-hit-recursive-descent", token.NoPos, "no member lookup returns the first hit of a recursive descent over embedded fields")
	}
}

func nodeText(n ast.Node) string {
	switch x := n.(type) {
	case *ast.AssignStmt:
		var parts []string
		for _, r := range x.Rhs {
			parts = append(parts, exprString(r))
		}
		return strings.Join(parts, ",")
	case ast.Expr:
		return exprString(x)
	}
	return ""
}

func r82(c *fw.Ctx) {
	const rule = "R8.2"
	p := c.Pkg("")
	info := p.TypesInfo
	exempt := map[string]string{
		"lookupMethod":               "generic helper used only for operator/hook methods with exported names (XGo_*): checked below",
		"(*tupleFields).FindField":   "virtual names of tuple structs, which are declared in the generated package itself",
		"(*tupleFields).FieldRef":    "virtual names of tuple structs, which are declared in the generated package itself",
		"findMethodType":             "looks up the exported iterator method Next of an enumerator type",
		"findEnumMethodType":         "looks up the exported enumerator methods XGo_Enum/Gop_Enum",
		"lookupStaticMember":         "static members: the caller (staticMember) applies allowAccess to the result",
		"deleteValueSpec":            "names of variables declared in the generated package",
		"(*CodeBuilder).LookupField": "index lookup for composite-literal keys, not a selector on a value (visibility of literal keys is outside this property)",
	}
	n := 0
	for _, fd := range c.Decls() {
		if c.PkgOfDecl(fd) != p || fd.Body == nil {
			continue
		}
		fname := declName(c, fd)
		inspectFunc(fd, func(m ast.Node) bool {
			var body *ast.BlockStmt
			switch x := m.(type) {
			case *ast.ForStmt:
				if x.Init != nil && (strings.Contains(nodeText(x.Init), "NumFields()") || strings.Contains(nodeText(x.Init), "NumMethods()") || strings.Contains(nodeText(x.Init), "numMethods()")) {
					body = x.Body
				}
			case *ast.RangeStmt:
				if t := info.TypeOf(x.X); t != nil && (t.String() == "[]*go/types.Var" || t.String() == "[]*go/types.Func") {
					body = x.Body
				}
			}
			if body == nil {
				return true
			}
			// name comparison selecting a member: `<member>.Name() == name` or `v == name` with v := <member>.Name()
			nameVars := map[types.Object]string{} // var -> member expr text
			var cmp *ast.BinaryExpr
			member := ""
			var accessPos token.Pos
			accessOn := ""
			for _, st := range body.List {
				ast.Inspect(st, func(k ast.Node) bool {
					switch y := k.(type) {
					case *ast.AssignStmt:
						if len(y.Lhs) == 1 && len(y.Rhs) == 1 {
							if call, ok := unparen(y.Rhs[0]).(*ast.CallExpr); ok {
								if sel, ok := unparen(call.Fun).(*ast.SelectorExpr); ok && sel.Sel.Name == "Name" && isTypesMember(info, sel.X) {
									if id, ok := y.Lhs[0].(*ast.Ident); ok {
										nameVars[info.Defs[id]] = exprString(sel.X)
									}
								}
							}
						}
					case *ast.CallExpr:
						if isFunc(callee(info, y), fw.Mod, "CodeBuilder.allowAccess") && len(y.Args) == 2 && !accessPos.IsValid() {
							accessPos = y.Pos()
							if call, ok := unparen(y.Args[0]).(*ast.CallExpr); ok {
								if sel, ok := unparen(call.Fun).(*ast.SelectorExpr); ok && sel.Sel.Name == "Pkg" {
									accessOn = exprString(sel.X)
								}
							}
						}
					case *ast.BinaryExpr:
						if y.Op != token.EQL || cmp != nil {
							return true
						}
						for _, side := range []ast.Expr{y.X, y.Y} {
							side = unparen(side)
							if call, ok := side.(*ast.CallExpr); ok {
								if sel, ok := unparen(call.Fun).(*ast.SelectorExpr); ok && sel.Sel.Name == "Name" && isTypesMember(info, sel.X) {
									cmp, member = y, exprString(sel.X)
								}
							}
							if id, ok := side.(*ast.Ident); ok {
								if mexpr, ok := nameVars[info.Uses[id]]; ok {
									cmp, member = y, mexpr
								}
							}
						}
					}
					return true
				})
			}
			if cmp == nil {
				return true
			}
			n++
			key := fname + "/member-name-match"
			if why, ok := exempt[fname]; ok {
				c.OK(rule, key, cmp.Pos(), "excepted: %s", why)
				return true
			}
			okVis := accessPos.IsValid() && accessPos < cmp.Pos() && accessOn == member
			// or as a conjunct of the same condition: `m.Name() == name && p.allowAccess(m.Pkg(), name)`
			if !okVis && accessPos.IsValid() && accessOn == member {
				inspectFunc(fd, func(k ast.Node) bool {
					if be, ok := k.(*ast.BinaryExpr); ok && be.Op == token.LAND && be.Pos() <= cmp.Pos() && cmp.End() <= be.End() && be.Pos() <= accessPos && accessPos < be.End() {
						okVis = true
					}
					return true
				})
			}
			c.Check(okVis, rule, key, cmp.Pos(),
				"%s selects a member by name (%s) without first testing allowAccess on that member: an unexported field or method of another package is reachable (sibling lookups normalField and method test visibility first)", fname, exprString(cmp))
			return true
		})
	}
	c.Floor(rule, "member-name match sites", n, 6)
	// lookupMethod is only called with exported/hook names
	if fn := c.LookupFunc("lookupMethod"); fn != nil {
		bad := 0
		for _, id := range usesOf(c, fn) {
			fd := enclosingFunc(c, id.Pos())
			if fd == nil {
				continue
			}
			inspectFunc(fd, func(m ast.Node) bool {
				call, ok := m.(*ast.CallExpr)
				if !ok || len(call.Args) != 2 {
					return true
				}
				var fid *ast.Ident
				switch f := unparen(call.Fun).(type) {
				case *ast.Ident:
					fid = f
				case *ast.IndexExpr:
					fid, _ = unparen(f.X).(*ast.Ident)
				}
				if fid != id {
					return true
				}
				arg := call.Args[1]
				if s, ok := constString(info, arg); ok {
					if !ast.IsExported(s) {
						bad++
					}
					return true
				}
				// `name` variables built from xgoPrefix + table entry, or a method name taken from an object
				txt := exprString(arg)
				if txt == "name" || strings.HasSuffix(txt, ".Name()") {
					return true
				}
				bad++
				return true
			})
		}
		c.Check(bad == 0, rule, "lookupMethod/exported-names-only", fn.Pos(), "lookupMethod ignores visibility; it must only be asked for exported operator/hook names (%d other uses)", bad)
	}
}

// isTypesMember: expression of type *types.Var or *types.Func (a field or a method).
func isTypesMember(info *types.Info, e ast.Expr) bool {
	t := info.TypeOf(e)
	if t == nil {
		return false
	}
	s := t.String()
	return s == "*go/types.Var" || s == "*go/types.Func"
}

// R8.3: the shallowest depth wins, so every depth-0 lookup of a type (its own fields: normalField; its own
// methods: method) must have been tried before any lookup of promoted members (embeddedField, or field,
// which falls through to it). On every path of findMember no depth-0 lookup may follow a promoted lookup.
func r83(c *fw.Ctx) {
	const rule = "R8.3"
	fd, p := needDecl(c, rule, "(*CodeBuilder).findMember")
	if fd == nil {
		return
	}
	info := p.TypesInfo
	paths, trunc := enumPathsN(info, fd.Body, 2)
	if trunc {
		c.Undecided(rule, "findMember/paths", fd.Pos(), "too many paths")
		return
	}
	kind := func(call *ast.CallExpr) string {
		fn, _ := callee(info, call).(*types.Func)
		if fn == nil || fn.Pkg() == nil || fn.Pkg().Path() != fw.Mod {
			return ""
		}
		switch shortName(fn) {
		case "CodeBuilder.method", "CodeBuilder.normalField":
			return "depth0"
		case "CodeBuilder.embeddedField", "CodeBuilder.field":
			return "promoted"
		}
		return ""
	}
	nPaths, nWithPromoted := 0, 0
	bad := ""
	var badPos token.Pos
	for _, pa := range paths {
		nPaths++
		seenPromoted := ""
		for _, call := range callsIn(pa.Nodes) {
			switch kind(call) {
			case "promoted":
				if seenPromoted == "" {
					nWithPromoted++
				}
				seenPromoted = exprString(call.Fun)
			case "depth0":
				if seenPromoted != "" && bad == "" {
					bad = sprintf("%s is tried after %s", exprString(call.Fun), seenPromoted)
					badPos = call.Pos()
				}
			}
		}
	}
	if nWithPromoted == 0 {
		c.Undecided(rule, "findMember/promoted-lookups", fd.Pos(), "no path of findMember performs a promoted-member lookup: the rule no longer recognises the lookup helpers")
		return
	}
	if badPos == token.NoPos {
		badPos = fd.Pos()
	}
	c.Check(bad == "", rule, "findMember/depth0-before-promoted", badPos,
		"on %d paths (%d with a promoted lookup): %s — a member promoted from an embedded field would win over the type's own field or method of the same name", nPaths, nWithPromoted, bad)
}
