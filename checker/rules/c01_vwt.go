package rules

import (
	"go/ast"
	"go/token"
	"go/types"
	"sort"
	"strings"

	"gogenvet/fw"
)

// R1.1 value-without-type.
//
// An *operand* is a *internal.Elem taken from the operand stack (Pop, Get, an element
// of GetArgs) or received as a parameter. A slot is *emitted* when its Val is read for
// anything but a nil comparison or an overwrite (it ends up in the syntax that is
// written), directly or in a helper the slot is passed to. A slot is *inspected* when
// its Type is read, or it escapes as a whole value (stored, returned, placed in a
// literal), or it is passed to a function that inspects the corresponding parameter.
// Rule: emitted => inspected, for every slot that originates from the stack in the
// function at hand (helpers export the obligation to their callers through summaries).

type vwtSlot struct {
	obj  types.Object // variable (nil for an anonymous stack read used in place)
	idx  string       // "" scalar, decimal constant, "*" variable index, "whole" the slice as a whole
	anon ast.Node
}

type vwtFacts struct {
	emitted, inspected bool
	emitPos            token.Pos
	emitHow            string
	emitSites          []token.Pos // every place the slot's value goes to the output
	inspSites          []token.Pos // every place its type is looked at / it is handed on
}

type vwtSummary struct {
	emits, handles map[int]bool // by parameter index
}

type vwtFunc struct {
	fd    *ast.FuncDecl
	fn    *types.Func
	name  string
	param map[types.Object]int
}

func r11(c *fw.Ctx) {
	const rule = "R1.1"
	p := c.Pkg("")
	info := p.TypesInfo
	stackPkg := fw.Mod + "/internal"

	var funcs []*vwtFunc
	byFn := map[*types.Func]*vwtFunc{}
	for _, fd := range c.Decls() {
		if c.PkgOfDecl(fd) != p || fd.Body == nil {
			continue
		}
		fn, _ := info.Defs[fd.Name].(*types.Func)
		if fn == nil {
			continue
		}
		vf := &vwtFunc{fd: fd, fn: fn, name: declName(c, fd), param: map[types.Object]int{}}
		k := 0
		for _, f := range fd.Type.Params.List {
			if len(f.Names) == 0 {
				k++
				continue
			}
			for _, n := range f.Names {
				if o := info.Defs[n]; o != nil {
					vf.param[o] = k
				}
				k++
			}
		}
		funcs = append(funcs, vf)
		byFn[fn] = vf
	}
	sum := map[*types.Func]*vwtSummary{}
	for _, vf := range funcs {
		sum[vf.fn] = &vwtSummary{emits: map[int]bool{}, handles: map[int]bool{}}
	}

	stackRead := func(e ast.Expr) string {
		call, ok := unparen(e).(*ast.CallExpr)
		if !ok {
			return ""
		}
		fn, ok := callee(info, call).(*types.Func)
		if !ok || fn == nil || fn.Pkg() == nil || fn.Pkg().Path() != stackPkg || !strings.HasPrefix(shortName(fn), "Stack.") {
			return ""
		}
		switch fn.Name() {
		case "Pop", "Get", "GetArgs":
			return fn.Name()
		}
		return ""
	}

	// chained: X.Op(...).stk.Pop() - the value popped is the one the builder operation Op has
	// just pushed itself (checked by that operation), not an operand supplied by the client
	chained := func(call *ast.CallExpr) bool {
		found := false
		ast.Inspect(call.Fun, func(n ast.Node) bool {
			if _, ok := n.(*ast.CallExpr); ok {
				found = true
			}
			return !found
		})
		return found
	}

	type result struct {
		facts  map[vwtSlot]*vwtFacts
		parent map[vwtSlot]vwtSlot
		origin map[vwtSlot]string // root slot -> origin label (stack reads only)
		order  []vwtSlot
	}

	analyse := func(vf *vwtFunc) *result {
		r := &result{facts: map[vwtSlot]*vwtFacts{}, parent: map[vwtSlot]vwtSlot{}, origin: map[vwtSlot]string{}}
		var find func(s vwtSlot) vwtSlot
		find = func(s vwtSlot) vwtSlot {
			q, ok := r.parent[s]
			if !ok || q == s {
				return s
			}
			root := find(q)
			r.parent[s] = root
			return root
		}
		get := func(s vwtSlot) *vwtFacts {
			s = find(s)
			f := r.facts[s]
			if f == nil {
				f = &vwtFacts{}
				r.facts[s] = f
				r.order = append(r.order, s)
			}
			return f
		}
		union := func(a, b vwtSlot) {
			ra, rb := find(a), find(b)
			if ra == rb {
				return
			}
			fa, fb := get(ra), get(rb)
			fb.emitted = fb.emitted || fa.emitted
			fb.inspected = fb.inspected || fa.inspected
			fb.emitSites = append(fb.emitSites, fa.emitSites...)
			fb.inspSites = append(fb.inspSites, fa.inspSites...)
			if fb.emitPos == token.NoPos {
				fb.emitPos, fb.emitHow = fa.emitPos, fa.emitHow
			}
			if o, ok := r.origin[ra]; ok {
				if _, has := r.origin[rb]; !has {
					r.origin[rb] = o
				}
			}
			r.parent[ra] = rb
		}
		// slotOf: the slot an expression of type *Elem / []*Elem denotes, if it is one
		var slotOf func(e ast.Expr) (vwtSlot, bool)
		slotOf = func(e ast.Expr) (vwtSlot, bool) {
			e = unparen(e)
			switch x := e.(type) {
			case *ast.Ident:
				o := info.Uses[x]
				if o == nil {
					o = info.Defs[x]
				}
				if v, ok := o.(*types.Var); ok && !v.IsField() && v.Parent() != p.Types.Scope() {
					if isElemPtr(v.Type()) {
						return vwtSlot{obj: v}, true
					}
					if isElemSlice(v.Type()) {
						return vwtSlot{obj: v, idx: "whole"}, true
					}
				}
			case *ast.IndexExpr:
				if base, ok := slotOf(x.X); ok && base.idx == "whole" {
					if k, ok := constInt(info, x.Index); ok {
						return vwtSlot{obj: base.obj, idx: sprintf("%d", k)}, true
					}
					return vwtSlot{obj: base.obj, idx: "*"}, true
				}
			case *ast.SliceExpr:
				if base, ok := slotOf(x.X); ok && base.idx == "whole" {
					return base, true
				}
			case *ast.CallExpr:
				if k := stackRead(x); (k == "Pop" || k == "Get") && !chained(x) {
					return vwtSlot{anon: x}, true
				}
			}
			return vwtSlot{}, false
		}
		nPop, nGet, nArgs := 0, 0, 0
		label := func(e ast.Expr) string {
			switch stackRead(e) {
			case "Pop":
				nPop++
				return sprintf("Pop#%d", nPop)
			case "Get":
				nGet++
				call := unparen(e).(*ast.CallExpr)
				return sprintf("Get(%s)#%d", exprString(call.Args[0]), nGet)
			case "GetArgs":
				nArgs++
				call := unparen(e).(*ast.CallExpr)
				return sprintf("GetArgs(%s)#%d", exprString(call.Args[0]), nArgs)
			}
			return ""
		}
		// pass 1: definitions, aliases, origins (source order)
		bind := func(lhs ast.Expr, rhs ast.Expr) {
			ls, ok := slotOf(lhs)
			if !ok {
				return
			}
			if rc, ok := unparen(rhs).(*ast.CallExpr); ok && stackRead(rhs) != "" && chained(rc) {
				return
			}
			if lab := label(rhs); lab != "" {
				get(ls)
				if _, has := r.origin[find(ls)]; !has {
					r.origin[find(ls)] = lab
				}
				return
			}
			if rs, ok := slotOf(rhs); ok {
				if ls.idx == "whole" && rs.idx == "whole" {
					// args2 := args / args[1:] : treat as the same slice (index shift ignored: slots compared coarsely)
					for _, k := range []string{"whole"} {
						union(vwtSlot{obj: ls.obj, idx: k}, vwtSlot{obj: rs.obj, idx: k})
					}
					return
				}
				if ls.idx == "" && rs.idx != "whole" {
					union(ls, rs)
				}
			}
		}
		ast.Inspect(vf.fd.Body, func(n ast.Node) bool {
			switch s := n.(type) {
			case *ast.AssignStmt:
				if len(s.Lhs) == len(s.Rhs) {
					for i := range s.Lhs {
						bind(s.Lhs[i], s.Rhs[i])
					}
				}
			case *ast.ValueSpec:
				if len(s.Names) == len(s.Values) {
					for i := range s.Names {
						bind(s.Names[i], s.Values[i])
					}
				}
			case *ast.RangeStmt:
				if s.Value != nil {
					if vs, ok := slotOf(s.Value); ok && vs.idx == "" {
						if lab := label(s.X); lab != "" {
							// for _, arg := range stk.GetArgs(n)
							get(vs)
							r.origin[find(vs)] = lab + "[*]"
						} else if xs, ok := slotOf(s.X); ok && xs.idx == "whole" {
							union(vs, vwtSlot{obj: xs.obj, idx: "*"})
						}
					}
				}
			}
			return true
		})
		// anonymous reads used in place get their origin where they are met (pass 2)
		// pass 2: uses
		var stack []ast.Node
		ast.Inspect(vf.fd.Body, func(n ast.Node) bool {
			if n == nil {
				stack = stack[:len(stack)-1]
				return true
			}
			stack = append(stack, n)
			e, ok := n.(ast.Expr)
			if !ok {
				return true
			}
			s, ok := slotOf(e)
			if !ok {
				return true
			}
			// parent (skipping parentheses)
			pi := len(stack) - 2
			for pi >= 0 {
				if _, isParen := stack[pi].(*ast.ParenExpr); !isParen {
					break
				}
				pi--
			}
			if pi < 0 {
				return true
			}
			parent := stack[pi]
			// an IndexExpr/SliceExpr on a slice base is handled at the outer expression
			switch pe := parent.(type) {
			case *ast.IndexExpr:
				if unparen(pe.X) == unparen(e) && s.idx == "whole" {
					return true
				}
			case *ast.SliceExpr:
				if unparen(pe.X) == unparen(e) && s.idx == "whole" {
					return true
				}
			}
			if s.anon != nil {
				if _, seen := r.origin[s]; !seen {
					r.origin[s] = label(e)
				}
			}
			f := get(s)
			var grand ast.Node
			gi := pi - 1
			for gi >= 0 {
				if _, isParen := stack[gi].(*ast.ParenExpr); !isParen {
					break
				}
				gi--
			}
			if gi >= 0 {
				grand = stack[gi]
			}
			switch pe := parent.(type) {
			case *ast.SelectorExpr:
				if unparen(pe.X) != unparen(e) {
					return true
				}
				// pure write?
				if as, ok := grand.(*ast.AssignStmt); ok {
					for _, l := range as.Lhs {
						if unparen(l) == ast.Expr(pe) {
							return true
						}
					}
				}
				switch pe.Sel.Name {
				case "Type":
					// `_, ok := x.Type.(*TypeType)` only tells a type operand from a value operand; the
					// type of a value operand has not been looked at by it
					if ta, ok := grand.(*ast.TypeAssertExpr); ok && ta.Type != nil && gi >= 1 {
						gg := gi - 1
						for gg >= 0 {
							if _, isParen := stack[gg].(*ast.ParenExpr); !isParen {
								break
							}
							gg--
						}
						if gg >= 0 {
							if as, ok := stack[gg].(*ast.AssignStmt); ok && len(as.Lhs) == 2 && len(as.Rhs) == 1 {
								if id, ok := as.Lhs[0].(*ast.Ident); ok && id.Name == "_" && namedIs(info.TypeOf(ta.Type), fw.Mod, "TypeType") {
									return true
								}
							}
						}
					}
					f.inspected = true
					f.inspSites = append(f.inspSites, pe.Pos())
				case "Val":
					if be, ok := grand.(*ast.BinaryExpr); ok && (be.Op == token.EQL || be.Op == token.NEQ) {
						if tv, ok := info.Types[be.Y]; ok && tv.IsNil() {
							return true
						}
						if tv, ok := info.Types[be.X]; ok && tv.IsNil() {
							return true
						}
					}
					if !f.emitted {
						f.emitted, f.emitPos, f.emitHow = true, pe.Pos(), "its Val is read"
					}
					f.emitSites = append(f.emitSites, pe.Pos())
				}
			case *ast.CallExpr:
				for k, a := range pe.Args {
					if unparen(a) != unparen(e) {
						continue
					}
					if id, ok := unparen(pe.Fun).(*ast.Ident); ok {
						if _, isB := info.Uses[id].(*types.Builtin); isB {
							// len(args), append(args, ...), copy: no inspection, no emission
							return true
						}
					}
					fn, _ := callee(info, pe).(*types.Func)
					sm := sum[fn]
					if fn == nil || sm == nil {
						f.inspected = true // dynamic or foreign callee: assumed to inspect (no alarm from what is not analysed)
						f.inspSites = append(f.inspSites, pe.Pos())
						continue
					}
					sig := fn.Type().(*types.Signature)
					pk := k
					if sig.Variadic() && pk >= sig.Params().Len()-1 {
						pk = sig.Params().Len() - 1
					}
					if sm.handles[pk] {
						f.inspected = true
						f.inspSites = append(f.inspSites, pe.Pos())
					}
					if sm.emits[pk] {
						if !f.emitted {
							f.emitted, f.emitPos, f.emitHow = true, pe.Pos(), "it is passed to "+fw.FuncName(fn)+", which emits that parameter"
						}
						if !sm.handles[pk] {
							f.emitSites = append(f.emitSites, pe.Pos())
						}
					}
				}
				if unparen(pe.Fun) == unparen(e) {
					return true
				}
			case *ast.BinaryExpr:
				// comparison of the operand pointer itself
			case *ast.AssignStmt:
				onLeft := false
				for _, l := range pe.Lhs {
					if unparen(l) == unparen(e) {
						onLeft = true
					}
				}
				if onLeft {
					return true
				}
				// right-hand side: alias to a local slot was handled in pass 1; any other store is an escape
				for i, rh := range pe.Rhs {
					if unparen(rh) == unparen(e) && len(pe.Lhs) == len(pe.Rhs) {
						if _, ok := slotOf(pe.Lhs[i]); !ok {
							f.inspected = true // stored away (block object, field): a later method of that object inspects it
							f.inspSites = append(f.inspSites, e.Pos())
						}
					}
				}
			case *ast.RangeStmt, *ast.ValueSpec, *ast.ExprStmt, *ast.IfStmt:
			case *ast.UnaryExpr, *ast.StarExpr:
				f.inspected = true // *arg copies / &arg hands the operand on
				f.inspSites = append(f.inspSites, e.Pos())
			default:
				// return, composite literal, key-value, send, ...: the operand escapes as a whole
				f.inspected = true
				f.inspSites = append(f.inspSites, e.Pos())
			}
			return true
		})
		return r
	}

	// fixpoint over helper summaries (coarse per parameter)
	results := map[*vwtFunc]*result{}
	for iter := 0; iter < 12; iter++ {
		changed := false
		for _, vf := range funcs {
			r := analyse(vf)
			results[vf] = r
			sm := sum[vf.fn]
			// every slot whose class contains a parameter variable
			for o, k := range vf.param {
				v := o.(*types.Var)
				if !isElemPtr(v.Type()) && !isElemSlice(v.Type()) {
					if s, ok := types.Unalias(v.Type()).(*types.Slice); !ok || !isElemPtr(s.Elem()) {
						continue
					}
				}
				em, ha := false, false
				seen := map[vwtSlot]bool{}
				check := func(s vwtSlot) {
					root := s
					for {
						q, ok := r.parent[root]
						if !ok || q == root {
							break
						}
						root = q
					}
					if seen[root] {
						return
					}
					seen[root] = true
					if f := r.facts[root]; f != nil {
						em = em || f.emitted
						ha = ha || f.inspected
					}
				}
				if isElemPtr(v.Type()) {
					check(vwtSlot{obj: v})
				} else {
					// every index slot of this slice that was seen
					for s := range r.parent {
						if s.obj == v {
							check(s)
						}
					}
					for s := range r.facts {
						if s.obj == v {
							check(s)
						}
					}
				}
				if em && !sm.emits[k] {
					sm.emits[k], changed = true, true
				}
				if ha && !sm.handles[k] {
					sm.handles[k], changed = true, true
				}
			}
		}
		if !changed {
			break
		}
	}

	// entry points whose parameters are operands taken from the stack by the caller
	// through an interface: the Call methods of the builtin instructions.
	isInstrCall := func(vf *vwtFunc) bool {
		sig := vf.fn.Type().(*types.Signature)
		return sig.Recv() != nil && vf.fn.Name() == "Call" && sig.Params().Len() == 5
	}

	// frozen idioms (one symbol, one reason) confirmed by reading
	exceptions := map[string]string{
		"(*CodeBuilder).returnResults": "reads the operands Return/checkFuncResults has just checked on the same stack slots",
		"emitForRangeStmt":             "pops the result of the MemberVal(...).Call(0) it has itself just performed; that call was matched by matchFuncCall",
	}

	nSlots, nFuncs := 0, 0
	for _, vf := range funcs {
		r := results[vf]
		if r == nil {
			continue
		}
		rootOf := func(s vwtSlot) vwtSlot {
			for {
				q, ok := r.parent[s]
				if !ok || q == s {
					return s
				}
				s = q
			}
		}
		// group slice slots by variable: whole/* facts extend to the constant slots
		type cls struct {
			key  string
			f    *vwtFacts
			slot vwtSlot
		}
		var classes []cls
		seenRoot := map[vwtSlot]bool{}
		allSlots := map[vwtSlot]bool{}
		for s := range r.facts {
			allSlots[s] = true
		}
		for s := range r.parent {
			allSlots[s] = true
		}
		var slots []vwtSlot
		for s := range allSlots {
			slots = append(slots, s)
		}
		sort.Slice(slots, func(i, j int) bool {
			pi, pj := token.NoPos, token.NoPos
			if slots[i].obj != nil {
				pi = slots[i].obj.Pos()
			} else {
				pi = slots[i].anon.Pos()
			}
			if slots[j].obj != nil {
				pj = slots[j].obj.Pos()
			} else {
				pj = slots[j].anon.Pos()
			}
			if pi != pj {
				return pi < pj
			}
			return slots[i].idx < slots[j].idx
		})
		originOfVar := func(s vwtSlot) (string, bool) {
			// origin of a slot: that of its class, or (for an index slot) that of the slice it indexes
			if o, ok := r.origin[rootOf(s)]; ok {
				return o, true
			}
			if s.obj != nil && s.idx != "" && s.idx != "whole" {
				if o, ok := r.origin[rootOf(vwtSlot{obj: s.obj, idx: "whole"})]; ok {
					return o + "[" + s.idx + "]", true
				}
			}
			if s.obj != nil {
				if k, ok := vf.param[s.obj]; ok && isInstrCall(vf) {
					if s.idx == "" || s.idx == "whole" {
						return sprintf("param#%d", k), true
					}
					return sprintf("param#%d[%s]", k, s.idx), true
				}
			}
			return "", false
		}
		any := false
		for _, s := range slots {
			if s.idx == "whole" {
				continue
			}
			root := rootOf(s)
			if seenRoot[root] {
				continue
			}
			f := r.facts[root]
			if f == nil {
				continue
			}
			// origin: look at every member of the class
			org, ok := "", false
			for _, m := range slots {
				if rootOf(m) == root {
					if o, has := originOfVar(m); has {
						org, ok = o, true
						break
					}
				}
			}
			if !ok {
				continue
			}
			seenRoot[root] = true
			// extend with whole / * facts of every slice the class indexes
			em, ins := f.emitted, f.inspected
			pos, how := f.emitPos, f.emitHow
			emitSites := append([]token.Pos(nil), f.emitSites...)
			inspSites := append([]token.Pos(nil), f.inspSites...)
			for _, m := range slots {
				if rootOf(m) != root || m.obj == nil || m.idx == "" {
					continue
				}
				for _, k := range []string{"whole", "*"} {
					if k == m.idx {
						continue
					}
					if g := r.facts[rootOf(vwtSlot{obj: m.obj, idx: k})]; g != nil {
						if k == "whole" || m.idx != "*" {
							// facts on the whole slice cover every slot; facts on a variable index cover constant slots
							if g.emitted && !em {
								em, pos, how = true, g.emitPos, g.emitHow
							}
							ins = ins || g.inspected
							if k != "whole" {
								emitSites = append(emitSites, g.emitSites...)
							}
							inspSites = append(inspSites, g.inspSites...)
						}
					}
				}
			}
			if !em {
				continue
			}
			nSlots++
			any = true
			key := vf.name + "/" + org
			if why, ok := exceptions[vf.name]; ok {
				c.OK(rule, key+"/excepted", pos, "%s", why)
				continue
			}
			classes = append(classes, cls{key: key, f: &vwtFacts{emitted: em, inspected: ins, emitPos: pos, emitHow: how, emitSites: emitSites, inspSites: inspSites}, slot: s})
		}
		// the remaining slots of a slice that is emitted as a whole: when no exact-arity test bounds the
		// slice to the slots named individually, the others are emitted too and must be inspected as well
		{
			sliceVars := map[types.Object]bool{}
			for _, s := range slots {
				if s.obj != nil && s.idx != "" {
					sliceVars[s.obj] = true
				}
			}
			var svs []types.Object
			for o := range sliceVars {
				svs = append(svs, o)
			}
			sort.Slice(svs, func(i, j int) bool { return svs[i].Pos() < svs[j].Pos() })
			doneRoot := map[vwtSlot]bool{}
			for _, o := range svs {
				whole := vwtSlot{obj: o, idx: "whole"}
				wroot := rootOf(whole)
				if doneRoot[wroot] {
					continue
				}
				org, ok := r.origin[wroot]
				if !ok {
					if k, isParam := vf.param[o]; isParam && isInstrCall(vf) {
						org, ok = sprintf("param#%d", k), true
					}
				}
				if !ok {
					continue
				}
				doneRoot[wroot] = true
				em, ins := false, false
				var pos token.Pos
				how := ""
				for _, k := range []string{"whole", "*"} {
					if g := r.facts[rootOf(vwtSlot{obj: o, idx: k})]; g != nil {
						if g.emitted && !em {
							em, pos, how = true, g.emitPos, g.emitHow
						}
						ins = ins || g.inspected
					}
				}
				// path form for a slice handed to an emitting helper as a whole: every path through that
				// hand-over passes an inspection of at least one element of the slice
				if g := r.facts[rootOf(whole)]; g != nil && len(g.emitSites) > 0 {
					var insp []token.Pos
					for _, m := range slots {
						if m.obj == o {
							if h := r.facts[rootOf(m)]; h != nil {
								insp = append(insp, h.inspSites...)
							}
						}
					}
					if len(insp) > 0 {
						if paths, trunc := enumPaths(info, vf.fd.Body); !trunc {
							bad, where := vwtPathCheck(info, paths, g.emitSites, insp)
							key := vf.name + "/" + org + "[whole]/path"
							if _, excepted := exceptions[vf.name]; !excepted {
								nSlots++
								any = true
								if bad {
									c.Violate(rule, key, where, "the operand slice %s is handed to an emitting helper on a path that passes no inspection of any of its elements", org)
								} else {
									c.OK(rule, key, g.emitSites[0], "every path that hands the operand slice %s to an emitting helper passes an inspection of one of its elements", org)
								}
							}
						}
					}
				}
				if !em || ins {
					continue
				}
				if strings.HasPrefix(org, "GetArgs(") {
					// GetArgs(K) with constant K: the slots are exactly 0..K-1
					arg := org[len("GetArgs("):strings.LastIndex(org, ")")]
					isConst := arg != ""
					for _, ch := range arg {
						if ch < '0' || ch > '9' {
							isConst = false
						}
					}
					if isConst {
						continue
					}
				}
				if vwtArityGuard(info, vf.fd, o) {
					continue
				}
				nSlots++
				any = true
				key := vf.name + "/" + org + "[rest]"
				if why, ok := exceptions[vf.name]; ok {
					c.OK(rule, key+"/excepted", pos, "%s", why)
					continue
				}
				c.Violate(rule, key, pos, "the operand slice %s is placed in the output as a whole (%s) and no exact-arity test bounds it to the slots inspected individually: the remaining operands are emitted without their types being looked at", org, how)
			}
		}
		if any {
			nFuncs++
		}
		// path refinement: on every acyclic normal path of the function, a path that passes an emission
		// site of the slot must also pass an inspection site (either order: the node is pushed last)
		var paths []cfgPath
		pathsOK := false
		needPaths := false
		for _, cl := range classes {
			if cl.f.inspected {
				needPaths = true
			}
		}
		if needPaths {
			var trunc bool
			paths, trunc = enumPaths(info, vf.fd.Body)
			pathsOK = !trunc
			if trunc {
				c.Units[rule+" functions judged flow-insensitively (too many paths)"]++
			}
		}
		for i, cl := range classes {
			if !cl.f.inspected || !pathsOK {
				continue
			}
			if bad, where := vwtPathCheck(info, paths, cl.f.emitSites, cl.f.inspSites); bad {
				f2 := *cl.f
				f2.inspected = false
				f2.emitPos = where
				f2.emitHow += "; on the path through this site no inspection of the operand is passed"
				classes[i].f = &f2
			}
		}
		for _, cl := range classes {
			c.Check(cl.f.inspected, rule, cl.key, cl.f.emitPos,
				"operand %s is placed in the output (%s); %s", strings.TrimPrefix(cl.key, vf.name+"/"), cl.f.emitHow,
				map[bool]string{true: "its Type is read or it is handed to a function that inspects it",
					false: "its Type is never read and it is handed to no function that inspects it: the construct emits an expression without looking at its type"}[cl.f.inspected])
		}
	}
	c.Floor(rule, "emitted operand slots", nSlots, 40)
	c.Floor(rule, "functions with emitted operands", nFuncs, 30)
}

// vwtArityGuard: the function compares len(v) (directly or through n := len(v)) with a
// constant >= 1 using == or !=, or hands len(v) to a function (checkArgsCount): the slice
// has an exact arity, so the slots named individually are all there are.
func vwtArityGuard(info *types.Info, fd *ast.FuncDecl, v types.Object) bool {
	isLen := func(e ast.Expr) bool {
		call, ok := unparen(e).(*ast.CallExpr)
		if !ok || len(call.Args) != 1 {
			return false
		}
		id, ok := unparen(call.Fun).(*ast.Ident)
		if !ok {
			return false
		}
		if b, ok := info.Uses[id].(*types.Builtin); !ok || b.Name() != "len" {
			return false
		}
		a, ok := unparen(call.Args[0]).(*ast.Ident)
		return ok && info.Uses[a] == v
	}
	alias := map[types.Object]bool{}
	ast.Inspect(fd.Body, func(n ast.Node) bool {
		if as, ok := n.(*ast.AssignStmt); ok && as.Tok == token.DEFINE && len(as.Lhs) == 1 && len(as.Rhs) == 1 && isLen(as.Rhs[0]) {
			if id, ok := as.Lhs[0].(*ast.Ident); ok {
				alias[info.Defs[id]] = true
			}
		}
		return true
	})
	isLenOrAlias := func(e ast.Expr) bool {
		if isLen(e) {
			return true
		}
		id, ok := unparen(e).(*ast.Ident)
		return ok && alias[info.Uses[id]]
	}
	found := false
	ast.Inspect(fd.Body, func(n ast.Node) bool {
		switch x := n.(type) {
		case *ast.BinaryExpr:
			if x.Op == token.EQL || x.Op == token.NEQ {
				for _, pr := range [][2]ast.Expr{{x.X, x.Y}, {x.Y, x.X}} {
					if isLenOrAlias(pr[0]) {
						if k, ok := constInt(info, pr[1]); ok && k >= 1 {
							found = true
						}
					}
				}
			}
		case *ast.CallExpr:
			if id, ok := unparen(x.Fun).(*ast.Ident); ok {
				if _, isB := info.Uses[id].(*types.Builtin); isB {
					return true
				}
			}
			for _, a := range x.Args {
				if isLenOrAlias(a) {
					found = true
				}
			}
		}
		return true
	})
	return found
}

// vwtPathCheck looks for an acyclic, feasible, normal path that passes an emission site but no
// inspection site. Paths whose branch facts contradict each other on a side-effect-free condition
// (the same identifier or field tested twice with different outcomes) are infeasible and skipped.
func vwtPathCheck(info *types.Info, paths []cfgPath, emit, insp []token.Pos) (bool, token.Pos) {
	covers := func(nodes []ast.Node, pos token.Pos) bool {
		for _, n := range nodes {
			if n.Pos() <= pos && pos < n.End() {
				return true
			}
		}
		return false
	}
	for _, pa := range paths {
		if pa.Abnormal {
			continue
		}
		seen := map[string]bool{}
		infeasible := false
		for _, f := range pa.Facts {
			k := exprString(unparen(f.Cond))
			pure := true
			ast.Inspect(f.Cond, func(n ast.Node) bool {
				if call, ok := n.(*ast.CallExpr); ok {
					if id, ok := unparen(call.Fun).(*ast.Ident); ok {
						if _, isB := info.Uses[id].(*types.Builtin); isB {
							return true
						}
					}
					pure = false
				}
				return true
			})
			if !pure {
				continue
			}
			if v, ok := seen[k]; ok && v != f.Val {
				infeasible = true
				break
			}
			seen[k] = f.Val
		}
		if infeasible || vwtNumericallyInfeasible(info, pa.Facts) {
			continue
		}
		var at token.Pos
		for _, e := range emit {
			if covers(pa.Nodes, e) {
				at = e
				break
			}
		}
		if at == token.NoPos {
			continue
		}
		ok := false
		for _, i := range insp {
			if covers(pa.Nodes, i) {
				ok = true
				break
			}
		}
		if !ok {
			return true, at
		}
	}
	return false, token.NoPos
}

// vwtNumericallyInfeasible: the branch facts of the path compare one local integer variable with
// constants in a way no integer satisfies (nidx > 0 false and nidx != 1 false).
func vwtNumericallyInfeasible(info *types.Info, facts []pathFact) bool {
	type cons struct {
		op  token.Token
		k   int64
		val bool
	}
	by := map[types.Object][]cons{}
	for _, f := range facts {
		be, ok := unparen(f.Cond).(*ast.BinaryExpr)
		if !ok {
			continue
		}
		switch be.Op {
		case token.EQL, token.NEQ, token.LSS, token.LEQ, token.GTR, token.GEQ:
		default:
			continue
		}
		id, ok := unparen(be.X).(*ast.Ident)
		if !ok {
			continue
		}
		o := info.Uses[id]
		if o == nil {
			continue
		}
		if b, ok := o.Type().Underlying().(*types.Basic); !ok || b.Info()&types.IsInteger == 0 {
			continue
		}
		k, ok := constInt(info, be.Y)
		if !ok {
			continue
		}
		by[o] = append(by[o], cons{be.Op, k, f.Val})
	}
	holds := func(op token.Token, x, k int64) bool {
		switch op {
		case token.EQL:
			return x == k
		case token.NEQ:
			return x != k
		case token.LSS:
			return x < k
		case token.LEQ:
			return x <= k
		case token.GTR:
			return x > k
		default:
			return x >= k
		}
	}
	for _, cs := range by {
		if len(cs) < 2 {
			continue
		}
		var cand []int64
		for _, c := range cs {
			cand = append(cand, c.k-1, c.k, c.k+1)
		}
		sat := false
		for _, x := range cand {
			all := true
			for _, c := range cs {
				if holds(c.op, x, c.k) != c.val {
					all = false
					break
				}
			}
			if all {
				sat = true
				break
			}
		}
		if !sat {
			return true
		}
	}
	return false
}
