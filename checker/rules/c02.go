package rules

import (
	"go/ast"
	"go/constant"
	"go/token"
	"go/types"
	"sort"

	"gogenvet/fw"
)

func init() {
	register("C02", Prop{
		NeedSSA: true,
		Run:     runC02,
		Explanation: "R2.1 the operator tables agree with each other and with go/token (token->name, name->token+arity, assign-op naming, shift/compare classification, builtin operator definitions: ~120 equalities, exhaustive); " +
			"R2.2 operands land in the syntactic positions in which they were pushed (the slot pushed earlier fills the field printed earlier) at every multi-operand node construction; " +
			"R2.3 the sibling container-typing tables (index vs range) accept the same containers up to Named/Alias unwrapping",
		NotDecided: "acceptance of every valid program, statement order, name binding (known rejections such as `0.5 != 1`, `1 << 2.0` are not found by these rules)",
	})
}

func runC02(c *fw.Ctx) {
	r21(c)
	r22(c)
	r23(c)
	comparableBothDirections(c, "R2.4")
	r123as(c, "R2.5", false)
}

type opTables struct {
	binary, unary, assign map[int64]string // token -> name
	nameToOps             map[string][2]int64
	kinds                 map[int64]int64
	kindsLen              int64
	builtinOps            map[string]*builtinOp
	builtinOrder          []string
	assignNames           map[string]*assignOp
}

type builtinOp struct {
	name     string
	tparams  []string // contract identifiers
	params   []int64  // tidx
	result   int64
	pos      token.Pos
	contract []types.Object
}

type assignOp struct {
	name     string
	contract types.Object
	ninteger bool
	pos      token.Pos
}

// readOpTables extracts the seven operator tables of package gogen.
func readOpTables(c *fw.Ctx, rule string) *opTables {
	p := c.Pkg("")
	info := p.TypesInfo
	ot := &opTables{binary: map[int64]string{}, unary: map[int64]string{}, assign: map[int64]string{},
		nameToOps: map[string][2]int64{}, kinds: map[int64]int64{}, builtinOps: map[string]*builtinOp{}, assignNames: map[string]*assignOp{}}
	ok := true
	strTable := func(name string, dst map[int64]string) {
		t := extractTable(p, name)
		if t.Err != "" {
			c.Undecided(rule, "table/"+name, token.NoPos, "cannot read table %s: %s", name, t.Err)
			ok = false
			return
		}
		for _, r := range t.Rows {
			k, _ := constant.Int64Val(constant.ToInt(r.Key))
			s, isStr := constString(info, r.Val)
			if !isStr {
				c.Undecided(rule, "table/"+name+"/row", r.Val.Pos(), "row value %s is not a constant string", exprString(r.Val))
				ok = false
				continue
			}
			if _, dup := dst[k]; dup {
				c.Violate(rule, "table/"+name+"/"+tokName(k)+"/duplicate", r.Val.Pos(), "token %s has two rows", tokName(k))
			}
			dst[k] = s
		}
	}
	strTable("binaryOps", ot.binary)
	strTable("unaryOps", ot.unary)
	strTable("assignOps", ot.assign)

	if t := extractTable(p, "nameToOps"); t.Err != "" {
		c.Undecided(rule, "table/nameToOps", token.NoPos, "cannot read table: %s", t.Err)
		ok = false
	} else {
		for _, r := range t.Rows {
			name := constant.StringVal(r.Key)
			lit := asLit(r.Val)
			if lit == nil {
				c.Undecided(rule, "table/nameToOps/"+name, r.Val.Pos(), "row is not a composite literal")
				ok = false
				continue
			}
			f := structFields(info, lit)
			tok, ok1 := constInt(info, f["Tok"])
			ar, ok2 := constInt(info, f["Arity"])
			if !ok1 || !ok2 {
				c.Undecided(rule, "table/nameToOps/"+name, r.Val.Pos(), "row fields are not constants")
				ok = false
				continue
			}
			if _, dup := ot.nameToOps[name]; dup {
				c.Violate(rule, "table/nameToOps/"+name+"/duplicate", r.Val.Pos(), "duplicate key")
			}
			ot.nameToOps[name] = [2]int64{tok, ar}
		}
	}
	if t := extractTable(p, "binaryOpKinds"); t.Err != "" {
		c.Undecided(rule, "table/binaryOpKinds", token.NoPos, "cannot read table: %s", t.Err)
		ok = false
	} else {
		for _, r := range t.Rows {
			k, _ := constant.Int64Val(constant.ToInt(r.Key))
			v, isInt := constInt(info, r.Val)
			if !isInt {
				c.Undecided(rule, "table/binaryOpKinds/"+tokName(k), r.Val.Pos(), "row value is not a constant")
				ok = false
				continue
			}
			ot.kinds[k] = v
		}
		ot.kindsLen = t.Len()
	}
	if t := extractTable(p, "_builtinOps"); t.Err != "" {
		c.Undecided(rule, "table/_builtinOps", token.NoPos, "cannot read table: %s", t.Err)
		ok = false
	} else {
		for _, r := range t.Rows {
			lit := asLit(r.Val)
			if lit == nil {
				c.Undecided(rule, "table/_builtinOps/row", r.Val.Pos(), "row is not a composite literal")
				ok = false
				continue
			}
			f := structFields(info, lit)
			name, ok1 := constString(info, f["name"])
			res, ok2 := constInt(info, f["result"])
			tp, pr := asLit(f["tparams"]), asLit(f["params"])
			if !ok1 || !ok2 || tp == nil || pr == nil {
				c.Undecided(rule, "table/_builtinOps/row", r.Val.Pos(), "row fields not understood")
				ok = false
				continue
			}
			op := &builtinOp{name: name, result: res, pos: r.Val.Pos()}
			for _, e := range tp.Elts {
				el := asLit(e)
				if el == nil {
					ok = false
					continue
				}
				ff := structFields(info, el)
				id, _ := unparen(ff["contract"]).(*ast.Ident)
				if id == nil {
					c.Undecided(rule, "table/_builtinOps/"+name+"/contract", e.Pos(), "contract is not an identifier")
					ok = false
					continue
				}
				op.tparams = append(op.tparams, id.Name)
				op.contract = append(op.contract, info.Uses[id])
			}
			for _, e := range pr.Elts {
				el := asLit(e)
				if el == nil {
					ok = false
					continue
				}
				ff := structFields(info, el)
				ti, isInt := constInt(info, ff["tidx"])
				if !isInt {
					ok = false
				}
				op.params = append(op.params, ti)
			}
			if _, dup := ot.builtinOps[name]; dup {
				c.Violate(rule, "table/_builtinOps/"+name+"/duplicate", r.Val.Pos(), "operator %s defined twice", name)
			}
			ot.builtinOps[name] = op
			ot.builtinOrder = append(ot.builtinOrder, name)
		}
	}
	if t := extractTable(p, "_assignOps"); t.Err != "" {
		c.Undecided(rule, "table/_assignOps", token.NoPos, "cannot read table: %s", t.Err)
		ok = false
	} else {
		for _, r := range t.Rows {
			lit := asLit(r.Val)
			if lit == nil {
				ok = false
				continue
			}
			f := structFields(info, lit)
			name, ok1 := constString(info, f["name"])
			id, _ := unparen(f["t"]).(*ast.Ident)
			nv := constOf(info, f["ninteger"])
			if !ok1 || id == nil || nv == nil {
				c.Undecided(rule, "table/_assignOps/row", r.Val.Pos(), "row fields not understood")
				ok = false
				continue
			}
			ot.assignNames[name] = &assignOp{name: name, contract: info.Uses[id], ninteger: constant.BoolVal(nv), pos: r.Val.Pos()}
		}
	}
	if !ok {
		return nil
	}
	return ot
}

// specialInstrs returns the names (without prefix) inserted into the builtin scope as
// NewInstruction(..., xgoPrefix+"Name", ...) by initBuiltinOps.
func specialInstrs(c *fw.Ctx, rule string) map[string]bool {
	p := c.Pkg("")
	info := p.TypesInfo
	fd, _ := needDecl(c, rule, "initBuiltinOps")
	r := map[string]bool{}
	if fd == nil {
		return r
	}
	prefix := ""
	if k, ok := p.Types.Scope().Lookup("xgoPrefix").(*types.Const); ok {
		prefix = constant.StringVal(k.Val())
	}
	inspectFunc(fd, func(n ast.Node) bool {
		call, ok := n.(*ast.CallExpr)
		if !ok {
			return true
		}
		if !isFunc(callee(info, call), fw.Mod, "NewInstruction") || len(call.Args) < 4 {
			return true
		}
		if s, ok := constString(info, call.Args[2]); ok && len(s) > len(prefix) && s[:len(prefix)] == prefix {
			// must be the argument of a scope Insert
			r[s[len(prefix):]] = true
		}
		return true
	})
	return r
}

func r21(c *fw.Ctx) {
	const rule = "R2.1"
	ot := readOpTables(c, rule)
	if ot == nil {
		return
	}
	p := c.Pkg("")
	special := specialInstrs(c, rule)
	pos := func(name string) token.Pos {
		if o := p.Types.Scope().Lookup(name); o != nil {
			return o.Pos()
		}
		return token.NoPos
	}
	srarrow, bidi := int64(-1), int64(-1)
	if tp := c.Pkg("token"); tp != nil {
		if k, ok := tp.Types.Scope().Lookup("SRARROW").(*types.Const); ok {
			srarrow, _ = constant.Int64Val(k.Val())
		}
		if k, ok := tp.Types.Scope().Lookup("BIDIARROW").(*types.Const); ok {
			bidi, _ = constant.Int64Val(k.Val())
		}
	}
	n := 0
	keys := func(m map[int64]string) []int64 {
		var r []int64
		for k := range m {
			r = append(r, k)
		}
		sort.Slice(r, func(i, j int) bool { return r[i] < r[j] })
		return r
	}
	// expected Go operator tokens per arity (from go/token: every binary operator of the
	// expression grammar, and every unary operator)
	goBinary := []token.Token{token.ADD, token.SUB, token.MUL, token.QUO, token.REM, token.AND, token.OR, token.XOR,
		token.AND_NOT, token.SHL, token.SHR, token.LAND, token.LOR, token.LSS, token.LEQ, token.GTR, token.GEQ, token.EQL, token.NEQ}
	goUnary := []token.Token{token.SUB, token.ADD, token.XOR, token.NOT, token.ARROW, token.AND}
	for _, t := range goBinary {
		_, ok := ot.binary[int64(t)]
		n++
		c.Check(ok, rule, "binaryOps/"+t.String()+"/present", pos("binaryOps"), "Go binary operator %s must have a name", t)
	}
	for _, t := range goUnary {
		_, ok := ot.unary[int64(t)]
		n++
		c.Check(ok, rule, "unaryOps/"+t.String()+"/present", pos("unaryOps"), "Go unary operator %s must have a name", t)
	}
	seenName := map[string]bool{}
	for _, t := range keys(ot.binary) {
		name := ot.binary[t]
		if name == "" {
			continue
		}
		if t == srarrow || t == bidi {
			c.OK(rule, "binaryOps/"+name+"/xgo-only", pos("binaryOps"), "XGo-only arrow operator: no Go token, resolved only through user-defined methods")
			continue
		}
		n++
		got, ok := ot.nameToOps[name]
		c.Check(ok && got == [2]int64{t, 2}, rule, "binaryOps/"+tokName(t)+"/roundtrip", pos("binaryOps"),
			"binaryOps[%s]=%q but nameToOps[%q]={%s,%d}: the emitted operator would not be the requested one", tokName(t), name, name, tokName(got[0]), got[1])
		c.Check(!seenName[name+"/2"], rule, "binaryOps/"+name+"/unique", pos("binaryOps"), "name %q is used for two binary tokens", name)
		seenName[name+"/2"] = true
	}
	for _, t := range keys(ot.unary) {
		name := ot.unary[t]
		if name == "" {
			continue
		}
		n++
		got, ok := ot.nameToOps[name]
		c.Check(ok && got == [2]int64{t, 1}, rule, "unaryOps/"+tokName(t)+"/roundtrip", pos("unaryOps"),
			"unaryOps[%s]=%q but nameToOps[%q]={%s,%d}", tokName(t), name, name, tokName(got[0]), got[1])
		c.Check(!seenName[name+"/1"], rule, "unaryOps/"+name+"/unique", pos("unaryOps"), "name %q is used for two unary tokens", name)
		seenName[name+"/1"] = true
	}
	// nameToOps -> tables (bijection) and -> definitions
	for _, name := range sortedKeys(ot.nameToOps) {
		e := ot.nameToOps[name]
		n++
		var back string
		if e[1] == 2 {
			back = ot.binary[e[0]]
		} else {
			back = ot.unary[e[0]]
		}
		c.Check(back == name, rule, "nameToOps/"+name+"/inverse", pos("nameToOps"), "nameToOps[%q]={%s,%d} but that token's table entry is %q", name, tokName(e[0]), e[1], back)
		def, isDef := ot.builtinOps[name]
		switch {
		case isDef:
			c.Check(int64(len(def.params)) == e[1], rule, "nameToOps/"+name+"/arity", def.pos, "operator %s is declared with %d parameters, table arity %d", name, len(def.params), e[1])
			c.Check(!special[name], rule, "nameToOps/"+name+"/defined-once", def.pos, "operator %s is both a template and a special instruction", name)
		case special[name]:
			c.OK(rule, "nameToOps/"+name+"/arity", pos("nameToOps"), "special instruction")
		default:
			c.Violate(rule, "nameToOps/"+name+"/defined", pos("nameToOps"), "operator %s has no definition in the builtin scope", name)
		}
	}
	for _, name := range ot.builtinOrder {
		_, ok := ot.nameToOps[name]
		n++
		c.Check(ok, rule, "_builtinOps/"+name+"/has-token", ot.builtinOps[name].pos, "builtin operator %s has no token in nameToOps (its template would get token ILLEGAL)", name)
	}
	// assign ops
	shiftAssign := int64(token.ADD_ASSIGN - token.ADD)
	goAssign := []token.Token{token.ADD_ASSIGN, token.SUB_ASSIGN, token.MUL_ASSIGN, token.QUO_ASSIGN, token.REM_ASSIGN,
		token.AND_ASSIGN, token.OR_ASSIGN, token.XOR_ASSIGN, token.SHL_ASSIGN, token.SHR_ASSIGN, token.AND_NOT_ASSIGN}
	for _, t := range goAssign {
		n++
		name := ot.assign[int64(t)]
		want := ot.binary[int64(t)-shiftAssign] + "Assign"
		c.Check(name == want, rule, "assignOps/"+t.String()+"/name", pos("assignOps"), "assignOps[%s]=%q, expected %q (binary operator of the same token + Assign)", t, name, want)
		_, def := ot.assignNames[name]
		c.Check(def, rule, "assignOps/"+t.String()+"/defined", pos("assignOps"), "assign operator %q has no definition in _assignOps", name)
	}
	for _, t := range keys(ot.assign) {
		if ot.assign[t] == "" {
			continue
		}
		found := false
		for _, g := range goAssign {
			if int64(g) == t {
				found = true
			}
		}
		c.Check(found, rule, "assignOps/"+tokName(t)+"/is-assign-token", pos("assignOps"), "row for token %s which is not an assignment operator", tokName(t))
	}
	for _, name := range sortedKeys(ot.assignNames) {
		used := false
		for _, v := range ot.assign {
			if v == name {
				used = true
			}
		}
		n++
		c.Check(used, rule, "_assignOps/"+name+"/has-token", ot.assignNames[name].pos, "assign operator %s is not the name of any token", name)
		// shifts take a separate count type parameter
		isShift := name == "LshAssign" || name == "RshAssign"
		c.Check(ot.assignNames[name].ninteger == isShift, rule, "_assignOps/"+name+"/count-param", ot.assignNames[name].pos,
			"separate shift-count type parameter = %v, expected %v", ot.assignNames[name].ninteger, isShift)
	}
	// binaryOpKinds
	cmp := map[token.Token]bool{token.LSS: true, token.LEQ: true, token.GTR: true, token.GEQ: true, token.EQL: true, token.NEQ: true}
	kNormal, kCompare, kShift := int64(0), int64(1), int64(2)
	if k, ok := p.Types.Scope().Lookup("binaryOpCompare").(*types.Const); ok {
		kCompare, _ = constant.Int64Val(k.Val())
	}
	if k, ok := p.Types.Scope().Lookup("binaryOpShift").(*types.Const); ok {
		kShift, _ = constant.Int64Val(k.Val())
	}
	if k, ok := p.Types.Scope().Lookup("binaryOpNormal").(*types.Const); ok {
		kNormal, _ = constant.Int64Val(k.Val())
	}
	for _, t := range goBinary {
		n++
		want := kNormal
		if cmp[t] {
			want = kCompare
		} else if t == token.SHL || t == token.SHR {
			want = kShift
		}
		got := ot.kinds[int64(t)] // absent = zero value of the array
		c.Check(got == want, rule, "binaryOpKinds/"+t.String(), pos("binaryOpKinds"), "token %s is classified %d, expected %d (0 normal, compare, shift)", t, got, want)
		c.Check(int64(t) < ot.kindsLen, rule, "binaryOpKinds/"+t.String()+"/in-range", pos("binaryOpKinds"), "table of length %d is indexed by token %d", ot.kindsLen, int64(t))
	}
	// shapes of the builtin operator templates
	for _, name := range ot.builtinOrder {
		def := ot.builtinOps[name]
		e, ok := ot.nameToOps[name]
		if !ok {
			continue
		}
		n++
		t := token.Token(e[0])
		switch {
		case e[1] == 2 && cmp[t]:
			c.Check(def.result == -1 && len(def.params) == 2 && def.params[0] == 0 && def.params[1] == 0, rule, "_builtinOps/"+name+"/shape", def.pos,
				"comparison %s must take (T, T) and return untyped bool (result -1); got params %v result %d", name, def.params, def.result)
		case e[1] == 2 && (t == token.SHL || t == token.SHR):
			c.Check(def.result == 0 && len(def.params) == 2 && def.params[0] == 0 && def.params[1] == 1 && len(def.tparams) == 2, rule, "_builtinOps/"+name+"/shape", def.pos,
				"shift %s must take (T, N) and return its left type parameter T; got params %v result %d", name, def.params, def.result)
		case e[1] == 2:
			c.Check(def.result == 0 && len(def.params) == 2 && def.params[0] == 0 && def.params[1] == 0, rule, "_builtinOps/"+name+"/shape", def.pos,
				"binary operator %s must take (T, T) and return T; got params %v result %d", name, def.params, def.result)
		default:
			c.Check(def.result == 0 && len(def.params) == 1 && def.params[0] == 0, rule, "_builtinOps/"+name+"/shape", def.pos,
				"unary operator %s must take (T) and return T; got params %v result %d", name, def.params, def.result)
		}
	}
	// inc/dec
	if t := extractTable(p, "incdecOps"); t.Err != "" {
		c.Undecided(rule, "table/incdecOps", token.NoPos, "cannot read table: %s", t.Err)
	} else {
		got := map[int64]string{}
		for _, r := range t.Rows {
			k, _ := constant.Int64Val(constant.ToInt(r.Key))
			got[k], _ = constString(p.TypesInfo, r.Val)
		}
		n += 2
		c.Check(got[int64(token.INC)] == "Inc" && special["Inc"], rule, "incdecOps/++", t.Lit.Pos(), "++ must name the Inc instruction that is inserted into the builtin scope (got %q, inserted=%v)", got[int64(token.INC)], special["Inc"])
		c.Check(got[int64(token.DEC)] == "Dec" && special["Dec"], rule, "incdecOps/--", t.Lit.Pos(), "-- must name the Dec instruction that is inserted into the builtin scope (got %q, inserted=%v)", got[int64(token.DEC)], special["Dec"])
	}
	c.Floor(rule, "table equalities", n, 100)
}
