package rules

import (
	"go/ast"
	"go/constant"
	"go/token"
	"go/types"

	"golang.org/x/tools/go/packages"
)

// E2: typed table extraction. Tables are package-level composite literals; keys and
// constant values are evaluated by go/types (exact), identifiers resolved to objects.

type Row struct {
	Key     constant.Value // array index or map key
	KeyExpr ast.Expr       // nil for positional rows
	Val     ast.Expr
}

type Table struct {
	Name string
	Obj  *types.Var
	Lit  *ast.CompositeLit
	Rows []Row
	Pkg  *packages.Package
	Err  string
}

// extractTable reads the package-level composite literal named name.
func extractTable(p *packages.Package, name string) *Table {
	t := &Table{Name: name, Pkg: p}
	init, obj := pkgVarInit(p, name)
	if obj == nil {
		t.Err = "variable not found"
		return t
	}
	t.Obj = obj
	lit, ok := unparen(init).(*ast.CompositeLit)
	if !ok {
		t.Err = "initialiser is not a composite literal"
		return t
	}
	t.Lit = lit
	_, isMap := obj.Type().Underlying().(*types.Map)
	next := int64(0)
	for _, el := range lit.Elts {
		var r Row
		if kv, ok := el.(*ast.KeyValueExpr); ok {
			r.KeyExpr, r.Val = kv.Key, kv.Value
			r.Key = constOf(p.TypesInfo, kv.Key)
			if r.Key == nil {
				t.Err = "row key " + exprString(kv.Key) + " is not a constant"
				return t
			}
			if !isMap {
				if k, ok := constant.Int64Val(constant.ToInt(r.Key)); ok {
					next = k + 1
				}
			}
		} else {
			if isMap {
				t.Err = "map row without key"
				return t
			}
			r.Val = el
			r.Key = constant.MakeInt64(next)
			next++
		}
		t.Rows = append(t.Rows, r)
	}
	return t
}

// Len is the length of an array table (max index + 1).
func (t *Table) Len() int64 {
	var n int64
	for _, r := range t.Rows {
		if k, ok := constant.Int64Val(constant.ToInt(r.Key)); ok && k+1 > n {
			n = k + 1
		}
	}
	return n
}

// structFields maps field name -> value expression for a struct composite literal
// (keyed or positional). lit's type is taken from info (elided types included).
func structFields(info *types.Info, lit *ast.CompositeLit) map[string]ast.Expr {
	tv, ok := info.Types[lit]
	if !ok {
		return nil
	}
	typ := tv.Type
	if p, ok := typ.Underlying().(*types.Pointer); ok {
		typ = p.Elem()
	}
	st, ok := typ.Underlying().(*types.Struct)
	if !ok {
		return nil
	}
	r := map[string]ast.Expr{}
	for i, el := range lit.Elts {
		if kv, ok := el.(*ast.KeyValueExpr); ok {
			if id, ok := kv.Key.(*ast.Ident); ok {
				r[id.Name] = kv.Value
			}
		} else if i < st.NumFields() {
			r[st.Field(i).Name()] = el
		}
	}
	return r
}

func asLit(e ast.Expr) *ast.CompositeLit {
	e = unparen(e)
	if u, ok := e.(*ast.UnaryExpr); ok && u.Op == token.AND {
		e = unparen(u.X)
	}
	l, _ := e.(*ast.CompositeLit)
	return l
}

func constString(info *types.Info, e ast.Expr) (string, bool) {
	v := constOf(info, e)
	if v == nil || v.Kind() != constant.String {
		return "", false
	}
	return constant.StringVal(v), true
}

func tokName(k int64) string {
	return token.Token(k).String()
}
