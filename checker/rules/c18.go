package rules

import (
	"go/ast"
	"go/token"
	"go/types"
	"os"
	"path/filepath"
	"sort"
	"strings"

	"golang.org/x/tools/go/ssa"

	"gogenvet/fw"
)

func init() {
	register("C18", Prop{
		NeedSSA: true,
		Run:     runC18,
		Explanation: "Argument: two builds that share no Package, importer or caller-supplied object can meet only in memory reachable from package-level variables. R18.1 outside package initialisers no store, map update or address-taken write targets a package-level variable or an address derived from one by field/index selection (sync/atomic and sync types excepted; named, reasoned exceptions for process-wide debug configuration); " +
			"R18.2 (E5, inclusion-based points-to with init/run phase cloning) in run-phase code no store, map update, copy, in-place append or receiver-mutating library call has an object created during package initialisation (or a library package variable) in the points-to set of its target; " +
			"R18.3 no goroutine is started and no channel is used by the builder, so the only concurrency is the caller's",
		NotDecided: "writes hidden inside the standard library beyond the mutator table; reflect/unsafe/go:linkname effects; callers that share an importer or go/types objects between builds (excluded by the property's premise)",
	})
}

func runC18(c *fw.Ctx) {
	r181(c)
	r182(c)
	r182control(c)
	r183(c)
	r184(c)
}

func funcLabel(fn *ssa.Function) string {
	top := fn
	for top.Parent() != nil {
		top = top.Parent()
	}
	if o, ok := top.Object().(*types.Func); ok {
		return fw.FuncName(o)
	}
	if top.Pkg != nil {
		rel := strings.TrimPrefix(strings.TrimPrefix(top.Pkg.Pkg.Path(), fw.Mod), "/")
		if rel != "" {
			return rel + ":" + top.Name()
		}
	}
	return top.Name()
}

// addrRoot follows FieldAddr/IndexAddr chains to the root address.
func addrRoot(v ssa.Value) ssa.Value {
	for {
		switch x := v.(type) {
		case *ssa.FieldAddr:
			v = x.X
		case *ssa.IndexAddr:
			v = x.X
		default:
			return v
		}
	}
}

func r181(c *fw.Ctx) {
	const rule = "R18.1"
	// named exceptions: one symbol, one reason
	exceptions := map[string]string{
		"SetDebug":                "process-wide debug configuration, set before any build starts; not part of a build",
		"packages/cache:SetDebug": "process-wide debug configuration",
	}
	nGlobals, nWrites := 0, 0
	for _, pkg := range c.Prog.AllPackages() {
		if !c.IsAnalysed(pkg.Pkg) {
			continue
		}
		for _, m := range pkg.Members {
			if _, ok := m.(*ssa.Global); ok {
				nGlobals++
			}
		}
	}
	for fn := range ssaFunctionsOf(c) {
		if fn.Blocks == nil || strings.HasPrefix(fn.Name(), "init") && fn.Parent() == nil && (fn.Name() == "init" || strings.HasPrefix(fn.Name(), "init#")) {
			continue
		}
		fname := funcLabel(fn)
		for _, b := range fn.Blocks {
			for _, ins := range b.Instrs {
				var g *ssa.Global
				kind := ""
				switch x := ins.(type) {
				case *ssa.Store:
					g, _ = addrRoot(x.Addr).(*ssa.Global)
					kind = "store"
				case *ssa.MapUpdate:
					if ld, ok := x.Map.(*ssa.UnOp); ok && ld.Op == token.MUL {
						g, _ = addrRoot(ld.X).(*ssa.Global)
					}
					kind = "map update"
				}
				if g == nil || g.Pkg == nil || !c.IsAnalysed(g.Pkg.Pkg) {
					continue
				}
				nWrites++
				key := fname + "/writes-" + g.Pkg.Pkg.Name() + "." + g.Name()
				if why, ok := exceptions[fname]; ok {
					c.OK(rule, key, ins.Pos(), "excepted: %s", why)
					continue
				}
				c.Violate(rule, key, ins.Pos(), "%s to package-level variable %s.%s outside package initialisation: state shared by all builds in the process is mutated (data race, cross-build interference)", kind, g.Pkg.Pkg.Name(), g.Name())
			}
		}
	}
	c.Units[rule+" package-level variables"] = nGlobals
	c.Units[rule+" direct writes outside init (all excepted when the check passes)"] = nWrites
	c.Floor(rule, "package-level variables", nGlobals, 80)
}

func ssaFunctionsOf(c *fw.Ctx) map[*ssa.Function]bool {
	r := map[*ssa.Function]bool{}
	var add func(f *ssa.Function)
	add = func(f *ssa.Function) {
		if f == nil || r[f] {
			return
		}
		r[f] = true
		for _, a := range f.AnonFuncs {
			add(a)
		}
	}
	for _, pkg := range c.Prog.AllPackages() {
		if !c.IsAnalysed(pkg.Pkg) {
			continue
		}
		for _, m := range pkg.Members {
			switch x := m.(type) {
			case *ssa.Function:
				add(x)
			case *ssa.Type:
				for _, t := range []types.Type{x.Type(), types.NewPointer(x.Type())} {
					ms := c.Prog.MethodSets.MethodSet(t)
					for i := 0; i < ms.Len(); i++ {
						if f := c.Prog.MethodValue(ms.At(i)); f != nil && f.Pkg == pkg {
							add(f)
						}
					}
				}
			}
		}
	}
	return r
}

func r182(c *fw.Ctx) {
	const rule = "R18.2"
	p := newPTA(c)
	viol, stats := p.run()
	if p.aborted {
		c.Undecided(rule, "points-to/solver", token.NoPos, "the points-to solver did not reach a fixed point within its step budget")
		return
	}
	for k, v := range stats {
		c.Units[rule+" "+k] = v
	}
	c.Floor(rule, "run-phase write sites", stats["write sites in run-phase code"], 300)
	c.Floor(rule, "init-time root objects", stats["init-time root objects"], 100)
	// named exceptions (one symbol + target, one reason)
	type exc struct{ fn, kind, target, why string }
	exceptions := []exc{
		{"SetDebug", "store", "package variable gogen.debug", "process-wide debug configuration (R18.1 exception), set before any build starts"},
		{"(*CodeBuilder).findMember", "mutator:(*go/types.Interface).Complete", "go/types.NewInterfaceType called in init",
			"types.NewInterfaceType(nil, nil) returns go/types' shared, already completed empty interface; Complete on a completed interface writes nothing (sub-rule below: constraint interfaces are completed during initialisation)"},
	}
	// object-level exception: the `None` operand placeholder
	noneLabel := ""
	if g, ok := c.Prog.Package(c.Pkg("").Types).Members["elemNone"].(*ssa.Global); ok {
		if o, ok := p.globals[g]; ok {
			p.nodes[p.objs[o].content].pts.each(func(i int32) { noneLabel = p.objs[p.objRoot(objID(i))].label })
		}
	}
	if noneLabel == "" {
		c.Undecided(rule, "anchor/elemNone", token.NoPos, "the shared placeholder operand elemNone was not found among the init-time objects")
	}
	nNone := 0
	seen := map[string]int{}
	for _, v := range viol {
		base := v.fn + "/" + v.kind + "/" + v.target
		seen[base]++
		key := base
		excepted := ""
		for _, e := range exceptions {
			if e.fn == v.fn && strings.HasPrefix(v.kind, e.kind) && strings.Contains(v.target, e.target) {
				excepted = e.why
			}
		}
		if excepted == "" && noneLabel != "" && v.target == noneLabel && v.kind == "store" {
			// the placeholder flows through the (single, merged) abstract operand stack into every operand position
			nNone++
			excepted = "the shared placeholder operand pushed by None() is merged with every other operand by the abstract operand stack; it is consumed only by constructs that test Val != nil (for/switch headers, slice bounds, literal keys), never by an operation that rewrites its operand"
		}
		if excepted != "" {
			c.OK(rule, key, v.pos, "excepted: %s", excepted)
			continue
		}
		c.Violate(rule, key, v.pos, "%s in run-phase code may target %s (created at %s during package initialisation and reachable from package-level state): independent builds would interfere", v.kind, v.target, c.Position(v.tpos))
	}
	c.Units[rule+" writes excepted for the None placeholder"] = nNone
	// sub-rule: interfaces built for constraints are completed where they are built
	if fd, pp := funcDecl(c, "newConstraint"); fd != nil {
		done := false
		inspectFunc(fd, func(n ast.Node) bool {
			if call, ok := n.(*ast.CallExpr); ok && isFunc(callee(pp.TypesInfo, call), "go/types", "Interface.Complete") {
				done = true
			}
			return true
		})
		c.Check(done, rule, "newConstraint/completes-interface", fd.Pos(), "constraint interfaces stored in package-level variables must be completed during initialisation (Complete mutates an incomplete interface on first use)")
	}
	if len(viol) == 0 {
		c.OK(rule, "no-write-into-init-time-objects", token.NoPos, "none of the %d write sites of run-phase code can reach one of the %d init-time root objects", stats["write sites in run-phase code"], stats["init-time root objects"])
	}
	for k, why := range p.cutsUsed {
		c.Assume("R18.2 named infeasibility " + k + ": " + why)
	}
	for k, n := range p.unanalysed {
		_ = n
		c.Assume("R18.2: " + k + " is treated as a user callback returning caller-owned objects")
	}
}

// r182control runs the engine on the built-in positive control.
func r182control(c *fw.Ctx) {
	const rule = "R18.2"
	dir := os.Getenv("VERIF_DIR")
	if dir == "" {
		if exe, err := os.Executable(); err == nil {
			dir = filepath.Dir(filepath.Dir(exe))
		}
	}
	cc, err := fw.LoadDir(filepath.Join(dir, "checker"), "./ptacontrol", "gogenvet/ptacontrol")
	if err != nil {
		c.Undecided(rule, "positive-control/load", token.NoPos, "cannot load the positive control: %v", err)
		return
	}
	p := newPTA(cc)
	viol, _ := p.run()
	got := map[string]bool{}
	for _, v := range viol {
		kind := v.kind
		if i := strings.Index(kind, ":"); i >= 0 {
			kind = kind[:i]
		}
		got[strings.TrimPrefix(v.fn, "gogenvet/")+"/"+kind] = true
	}
	want := []string{"ptacontrol:StoreThroughAlias/store", "ptacontrol:StoreDeep/store", "ptacontrol:MapUpdate/mapupdate", "ptacontrol:AppendInPlace/append",
		"ptacontrol:LibraryNodeWrite/store", "ptacontrol:MutatorOnShared/mutator", "ptacontrol:SortShared/mutator"}
	for _, w := range want {
		c.Check(got[w], rule, "positive-control/"+w, token.NoPos, "the engine no longer reports the built-in example %s: it has lost its sensitivity", w)
		delete(got, w)
	}
	var extra []string
	for g := range got {
		extra = append(extra, g)
	}
	sort.Strings(extra)
	c.Check(len(extra) == 0, rule, "positive-control/no-false-report", token.NoPos, "the engine reports look-alikes of the built-in example that write no init-time state: %v", extra)
}

func r183(c *fw.Ctx) {
	const rule = "R18.3"
	n := 0
	for fn := range ssaFunctionsOf(c) {
		if fn.Blocks == nil || fn.Pkg == nil {
			continue
		}
		pp := fn.Pkg.Pkg.Path()
		if pp == fw.Mod+"/packages" || pp == fw.Mod+"/packages/cache" {
			continue // the importer runs `go list`; its discipline is C20's
		}
		for _, b := range fn.Blocks {
			for _, ins := range b.Instrs {
				what := ""
				switch x := ins.(type) {
				case *ssa.Go:
					what = "go statement"
				case *ssa.Send:
					what = "channel send"
				case *ssa.Select:
					what = "select"
				case *ssa.MakeChan:
					what = "channel creation"
				case *ssa.UnOp:
					if x.Op == token.ARROW {
						what = "channel receive"
					}
				}
				if what != "" {
					n++
					c.Violate(rule, funcLabel(fn)+"/"+what, ins.Pos(), "%s in the builder: concurrency of its own breaks the argument that only the caller's goroutines touch builder state", what)
				}
			}
		}
	}
	if n == 0 {
		c.OK(rule, "no-goroutines-or-channels", token.NoPos, "the builder packages start no goroutine and use no channel")
	}
}

// R18.4: an object is not used after it was given back to a sync.Pool. Once Put, the object (and every
// buffer reachable from it) belongs to whichever goroutine Gets it next - another build. A function that
// releases a pooled object (calls sync.Pool.Put on its receiver/parameter, like (*printer).free) may be
// called only as the last use of that object: on every path, no later statement mentions the released
// variable or a pointer-like local that was derived from it before the release (result := p.output).
// A deferred release runs after everything else and is fine.
func r184(c *fw.Ctx) {
	const rule = "R18.4"
	// releasers: functions of the analysed packages that Put one of their parameters / their receiver
	type rel struct{ param int } // -1 = receiver
	releasers := map[*types.Func]rel{}
	for _, fd := range c.Decls() {
		p := c.PkgOfDecl(fd)
		if fd.Body == nil {
			continue
		}
		info := p.TypesInfo
		fn, _ := info.Defs[fd.Name].(*types.Func)
		if fn == nil {
			continue
		}
		ast.Inspect(fd.Body, func(m ast.Node) bool {
			call, ok := m.(*ast.CallExpr)
			if !ok || !isFunc(callee(info, call), "sync", "Pool.Put") || len(call.Args) != 1 {
				return true
			}
			id, ok := unparen(call.Args[0]).(*ast.Ident)
			if !ok {
				return true
			}
			o := info.Uses[id]
			if fd.Recv != nil && len(fd.Recv.List) == 1 && len(fd.Recv.List[0].Names) == 1 && info.Defs[fd.Recv.List[0].Names[0]] == o {
				releasers[fn] = rel{-1}
			}
			k := 0
			for _, f := range fd.Type.Params.List {
				for _, nm := range f.Names {
					if info.Defs[nm] == o {
						releasers[fn] = rel{k}
					}
					k++
				}
			}
			return true
		})
	}
	nSites := 0
	for _, fd := range c.Decls() {
		p := c.PkgOfDecl(fd)
		if fd.Body == nil {
			continue
		}
		info := p.TypesInfo
		// release sites in this function
		type site struct {
			call *ast.CallExpr
			obj  types.Object
		}
		var sites []site
		deferred := map[*ast.CallExpr]bool{}
		ast.Inspect(fd.Body, func(m ast.Node) bool {
			if ds, ok := m.(*ast.DeferStmt); ok {
				deferred[ds.Call] = true
			}
			call, ok := m.(*ast.CallExpr)
			if !ok {
				return true
			}
			fn, _ := callee(info, call).(*types.Func)
			var arg ast.Expr
			if r, ok := releasers[fn]; ok {
				if r.param == -1 {
					if se, ok := unparen(call.Fun).(*ast.SelectorExpr); ok {
						arg = se.X
					}
				} else if r.param < len(call.Args) {
					arg = call.Args[r.param]
				}
			} else if isFunc(fn, "sync", "Pool.Put") && len(call.Args) == 1 {
				arg = call.Args[0]
			}
			if arg == nil {
				return true
			}
			if id, ok := unparen(arg).(*ast.Ident); ok {
				if o := info.Uses[id]; o != nil {
					sites = append(sites, site{call, o})
				}
			}
			return true
		})
		if len(sites) == 0 {
			continue
		}
		fname := declName(c, fd)
		var paths []cfgPath
		for i, s := range sites {
			nSites++
			key := sprintf("%s/release#%d(%s)", fname, i+1, s.obj.Name())
			if deferred[s.call] {
				c.OK(rule, key, s.call.Pos(), "released by a deferred call: after every other use")
				continue
			}
			if paths == nil {
				var trunc bool
				paths, trunc = enumPaths(info, fd.Body)
				if trunc {
					c.Undecided(rule, key+"/paths", fd.Pos(), "too many paths")
					continue
				}
			}
			bad := ""
			var badPos token.Pos
			for _, pa := range paths {
				rel := -1
				derived := map[types.Object]bool{}
				mentions := func(n ast.Node) (bool, string) {
					found, what := false, ""
					ast.Inspect(n, func(m ast.Node) bool {
						if id, ok := m.(*ast.Ident); ok {
							if o := info.Uses[id]; o != nil && (o == s.obj || derived[o]) {
								found, what = true, id.Name
							}
						}
						return !found
					})
					return found, what
				}
				for i, nd := range pa.Nodes {
					if rel < 0 {
						// before the release: record pointer-like locals derived from the object
						if as, ok := nd.(*ast.AssignStmt); ok && len(as.Lhs) == len(as.Rhs) {
							for k, l := range as.Lhs {
								if id, ok := unparen(l).(*ast.Ident); ok {
									o := info.Defs[id]
									if o == nil {
										o = info.Uses[id]
									}
									if o == nil || o == s.obj {
										continue
									}
									// storage taken from the object: a field / element / slice of it (not a call result)
									rooted := false
									e := unparen(as.Rhs[k])
									for !rooted {
										switch x := e.(type) {
										case *ast.SelectorExpr:
											e = unparen(x.X)
											continue
										case *ast.IndexExpr:
											e = unparen(x.X)
											continue
										case *ast.SliceExpr:
											e = unparen(x.X)
											continue
										case *ast.StarExpr:
											e = unparen(x.X)
											continue
										case *ast.Ident:
											if ro := info.Uses[x]; ro != nil && (ro == s.obj || derived[ro]) && e != unparen(as.Rhs[k]) {
												rooted = true
											}
										}
										break
									}
									if rooted {
										switch o.Type().Underlying().(type) {
										case *types.Pointer, *types.Slice, *types.Map, *types.Chan, *types.Interface, *types.Signature:
											derived[o] = true
										}
									}
								}
							}
						}
						if nd.Pos() <= s.call.Pos() && s.call.End() <= nd.End() {
							rel = i
						}
						continue
					}
					if m, what := mentions(nd); m && bad == "" {
						bad, badPos = what, nd.Pos()
					}
				}
			}
			if badPos == token.NoPos {
				badPos = s.call.Pos()
			}
			c.Check(bad == "", rule, key, badPos,
				"%s (or storage taken from it before) is used after it was put back into the pool: `%s` at %s may be overwritten by another goroutine that got the object from the pool - a data race between independent builds", s.obj.Name(), bad, c.Position(badPos))
		}
	}
	c.Floor(rule, "pool release sites", nSites, 1)
}
