package rules

import (
	"go/ast"
	"go/token"
	"go/types"
	"os"
	"path/filepath"
	"sort"
	"strings"

	"golang.org/x/tools/go/ssa"

	"gogenvet/fw"
)

func init() {
	register("C18", Prop{
		NeedSSA: true,
		Run:     runC18,
		Explanation: "Argument: two builds that share no Package, importer or caller-supplied object can meet only in memory reachable from package-level variables. R18.1 outside package initialisers no store, map update or address-taken write targets a package-level variable or an address derived from one by field/index selection (sync/atomic and sync types excepted; named, reasoned exceptions for process-wide debug configuration); " +
			"R18.2 (E5, inclusion-based points-to with init/run phase cloning) in run-phase code no store, map update, copy, in-place append or receiver-mutating library call has an object created during package initialisation (or a library package variable) in the points-to set of its target; " +
			"R18.3 no goroutine is started and no channel is used by the builder, so the only concurrency is the caller's",
		NotDecided: "writes hidden inside the standard library beyond the mutator table; reflect/unsafe/go:linkname effects; callers that share an importer or go/types objects between builds (excluded by the property's premise)",
	})
}

func runC18(c *fw.Ctx) {
	r181(c)
	r182(c)
	r182control(c)
	r183(c)
}

func funcLabel(fn *ssa.Function) string {
	top := fn
	for top.Parent() != nil {
		top = top.Parent()
	}
	if o, ok := top.Object().(*types.Func); ok {
		return fw.FuncName(o)
	}
	if top.Pkg != nil {
		rel := strings.TrimPrefix(strings.TrimPrefix(top.Pkg.Pkg.Path(), fw.Mod), "/")
		if rel != "" {
			return rel + ":" + top.Name()
		}
	}
	return top.Name()
}

// addrRoot follows FieldAddr/IndexAddr chains to the root address.
func addrRoot(v ssa.Value) ssa.Value {
	for {
		switch x := v.(type) {
		case *ssa.FieldAddr:
			v = x.X
		case *ssa.IndexAddr:
			v = x.X
		default:
			return v
		}
	}
}

func r181(c *fw.Ctx) {
	const rule = "R18.1"
	// named exceptions: one symbol, one reason
	exceptions := map[string]string{
		"SetDebug":                "process-wide debug configuration, set before any build starts; not part of a build",
		"packages/cache:SetDebug": "process-wide debug configuration",
	}
	nGlobals, nWrites := 0, 0
	for _, pkg := range c.Prog.AllPackages() {
		if !c.IsAnalysed(pkg.Pkg) {
			continue
		}
		for _, m := range pkg.Members {
			if _, ok := m.(*ssa.Global); ok {
				nGlobals++
			}
		}
	}
	for fn := range ssaFunctionsOf(c) {
		if fn.Blocks == nil || strings.HasPrefix(fn.Name(), "init") && fn.Parent() == nil && (fn.Name() == "init" || strings.HasPrefix(fn.Name(), "init#")) {
			continue
		}
		fname := funcLabel(fn)
		for _, b := range fn.Blocks {
			for _, ins := range b.Instrs {
				var g *ssa.Global
				kind := ""
				switch x := ins.(type) {
				case *ssa.Store:
					g, _ = addrRoot(x.Addr).(*ssa.Global)
					kind = "store"
				case *ssa.MapUpdate:
					if ld, ok := x.Map.(*ssa.UnOp); ok && ld.Op == token.MUL {
						g, _ = addrRoot(ld.X).(*ssa.Global)
					}
					kind = "map update"
				}
				if g == nil || g.Pkg == nil || !c.IsAnalysed(g.Pkg.Pkg) {
					continue
				}
				nWrites++
				key := fname + "/writes-" + g.Pkg.Pkg.Name() + "." + g.Name()
				if why, ok := exceptions[fname]; ok {
					c.OK(rule, key, ins.Pos(), "excepted: %s", why)
					continue
				}
				c.Violate(rule, key, ins.Pos(), "%s to package-level variable %s.%s outside package initialisation: state shared by all builds in the process is mutated (data race, cross-build interference)", kind, g.Pkg.Pkg.Name(), g.Name())
			}
		}
	}
	c.Units[rule+" package-level variables"] = nGlobals
	c.Units[rule+" direct writes outside init (all excepted when the check passes)"] = nWrites
	c.Floor(rule, "package-level variables", nGlobals, 80)
}

func ssaFunctionsOf(c *fw.Ctx) map[*ssa.Function]bool {
	r := map[*ssa.Function]bool{}
	var add func(f *ssa.Function)
	add = func(f *ssa.Function) {
		if f == nil || r[f] {
			return
		}
		r[f] = true
		for _, a := range f.AnonFuncs {
			add(a)
		}
	}
	for _, pkg := range c.Prog.AllPackages() {
		if !c.IsAnalysed(pkg.Pkg) {
			continue
		}
		for _, m := range pkg.Members {
			switch x := m.(type) {
			case *ssa.Function:
				add(x)
			case *ssa.Type:
				for _, t := range []types.Type{x.Type(), types.NewPointer(x.Type())} {
					ms := c.Prog.MethodSets.MethodSet(t)
					for i := 0; i < ms.Len(); i++ {
						if f := c.Prog.MethodValue(ms.At(i)); f != nil && f.Pkg == pkg {
							add(f)
						}
					}
				}
			}
		}
	}
	return r
}

func r182(c *fw.Ctx) {
	const rule = "R18.2"
	p := newPTA(c)
	viol, stats := p.run()
	if p.aborted {
		c.Undecided(rule, "points-to/solver", token.NoPos, "the points-to solver did not reach a fixed point within its step budget")
		return
	}
	for k, v := range stats {
		c.Units[rule+" "+k] = v
	}
	c.Floor(rule, "run-phase write sites", stats["write sites in run-phase code"], 300)
	c.Floor(rule, "init-time root objects", stats["init-time root objects"], 100)
	// named exceptions (one symbol + target, one reason)
	type exc struct{ fn, kind, target, why string }
	exceptions := []exc{
		{"SetDebug", "store", "package variable gogen.debug", "process-wide debug configuration (R18.1 exception), set before any build starts"},
		{"(*CodeBuilder).findMember", "mutator:(*go/types.Interface).Complete", "go/types.NewInterfaceType called in init",
			"types.NewInterfaceType(nil, nil) returns go/types' shared, already completed empty interface; Complete on a completed interface writes nothing (sub-rule below: constraint interfaces are completed during initialisation)"},
	}
	// object-level exception: the `None` operand placeholder
	noneLabel := ""
	if g, ok := c.Prog.Package(c.Pkg("").Types).Members["elemNone"].(*ssa.Global); ok {
		if o, ok := p.globals[g]; ok {
			p.nodes[p.objs[o].content].pts.each(func(i int32) { noneLabel = p.objs[p.objRoot(objID(i))].label })
		}
	}
	if noneLabel == "" {
		c.Undecided(rule, "anchor/elemNone", token.NoPos, "the shared placeholder operand elemNone was not found among the init-time objects")
	}
	nNone := 0
	seen := map[string]int{}
	for _, v := range viol {
		base := v.fn + "/" + v.kind + "/" + v.target
		seen[base]++
		key := base
		excepted := ""
		for _, e := range exceptions {
			if e.fn == v.fn && strings.HasPrefix(v.kind, e.kind) && strings.Contains(v.target, e.target) {
				excepted = e.why
			}
		}
		if excepted == "" && noneLabel != "" && v.target == noneLabel && v.kind == "store" {
			// the placeholder flows through the (single, merged) abstract operand stack into every operand position
			nNone++
			excepted = "the shared placeholder operand pushed by None() is merged with every other operand by the abstract operand stack; it is consumed only by constructs that test Val != nil (for/switch headers, slice bounds, literal keys), never by an operation that rewrites its operand"
		}
		if excepted != "" {
			c.OK(rule, key, v.pos, "excepted: %s", excepted)
			continue
		}
		c.Violate(rule, key, v.pos, "%s in run-phase code may target %s (created at %s during package initialisation and reachable from package-level state): independent builds would interfere", v.kind, v.target, c.Position(v.tpos))
	}
	c.Units[rule+" writes excepted for the None placeholder"] = nNone
	// sub-rule: interfaces built for constraints are completed where they are built
	if fd, pp := funcDecl(c, "newConstraint"); fd != nil {
		done := false
		inspectFunc(fd, func(n ast.Node) bool {
			if call, ok := n.(*ast.CallExpr); ok && isFunc(callee(pp.TypesInfo, call), "go/types", "Interface.Complete") {
				done = true
			}
			return true
		})
		c.Check(done, rule, "newConstraint/completes-interface", fd.Pos(), "constraint interfaces stored in package-level variables must be completed during initialisation (Complete mutates an incomplete interface on first use)")
	}
	if len(viol) == 0 {
		c.OK(rule, "no-write-into-init-time-objects", token.NoPos, "none of the %d write sites of run-phase code can reach one of the %d init-time root objects", stats["write sites in run-phase code"], stats["init-time root objects"])
	}
	for k, why := range p.cutsUsed {
		c.Assume("R18.2 named infeasibility " + k + ": " + why)
	}
	for k, n := range p.unanalysed {
		_ = n
		c.Assume("R18.2: " + k + " is treated as a user callback returning caller-owned objects")
	}
}

// r182control runs the engine on the built-in positive control.
func r182control(c *fw.Ctx) {
	const rule = "R18.2"
	dir := os.Getenv("VERIF_DIR")
	if dir == "" {
		if exe, err := os.Executable(); err == nil {
			dir = filepath.Dir(filepath.Dir(exe))
		}
	}
	cc, err := fw.LoadDir(filepath.Join(dir, "checker"), "./ptacontrol", "gogenvet/ptacontrol")
	if err != nil {
		c.Undecided(rule, "positive-control/load", token.NoPos, "cannot load the positive control: %v", err)
		return
	}
	p := newPTA(cc)
	viol, _ := p.run()
	got := map[string]bool{}
	for _, v := range viol {
		kind := v.kind
		if i := strings.Index(kind, ":"); i >= 0 {
			kind = kind[:i]
		}
		got[strings.TrimPrefix(v.fn, "gogenvet/")+"/"+kind] = true
	}
	want := []string{"ptacontrol:StoreThroughAlias/store", "ptacontrol:StoreDeep/store", "ptacontrol:MapUpdate/mapupdate", "ptacontrol:AppendInPlace/append",
		"ptacontrol:LibraryNodeWrite/store", "ptacontrol:MutatorOnShared/mutator", "ptacontrol:SortShared/mutator"}
	for _, w := range want {
		c.Check(got[w], rule, "positive-control/"+w, token.NoPos, "the engine no longer reports the built-in example %s: it has lost its sensitivity", w)
		delete(got, w)
	}
	var extra []string
	for g := range got {
		extra = append(extra, g)
	}
	sort.Strings(extra)
	c.Check(len(extra) == 0, rule, "positive-control/no-false-report", token.NoPos, "the engine reports look-alikes of the built-in example that write no init-time state: %v", extra)
}

func r183(c *fw.Ctx) {
	const rule = "R18.3"
	n := 0
	for fn := range ssaFunctionsOf(c) {
		if fn.Blocks == nil || fn.Pkg == nil {
			continue
		}
		pp := fn.Pkg.Pkg.Path()
		if pp == fw.Mod+"/packages" || pp == fw.Mod+"/packages/cache" {
			continue // the importer runs `go list`; its discipline is C20's
		}
		for _, b := range fn.Blocks {
			for _, ins := range b.Instrs {
				what := ""
				switch x := ins.(type) {
				case *ssa.Go:
					what = "go statement"
				case *ssa.Send:
					what = "channel send"
				case *ssa.Select:
					what = "select"
				case *ssa.MakeChan:
					what = "channel creation"
				case *ssa.UnOp:
					if x.Op == token.ARROW {
						what = "channel receive"
					}
				}
				if what != "" {
					n++
					c.Violate(rule, funcLabel(fn)+"/"+what, ins.Pos(), "%s in the builder: concurrency of its own breaks the argument that only the caller's goroutines touch builder state", what)
				}
			}
		}
	}
	if n == 0 {
		c.OK(rule, "no-goroutines-or-channels", token.NoPos, "the builder packages start no goroutine and use no channel")
	}
}
