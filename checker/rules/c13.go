package rules

import (
	"go/ast"
	"go/token"
	"go/types"
	"sort"
	"strings"

	"golang.org/x/tools/go/packages"

	"gogenvet/fw"
)

func init() {
	register("C13", Prop{
		NeedSSA: false,
		Run:     runC13,
		Explanation: "R13.1 the type switch of toType has a case for every concrete go/types type implementing types.Type (Tuple excepted, with reason); " +
			"R13.2 for each case, every identity-relevant component of that type (spec 'Type identity': array length+element, channel direction+element, map key+element, per struct field name/embeddedness/type/tag, signature params/results/variadic/type parameters, interface embeddeds+explicit methods, named/alias object+type arguments, union terms with tilde, type parameter object) is read in the helper's call tree; the direction table maps each types.ChanDir to the ast direction bits of the same meaning; " +
			"R13.3 a receive-only channel element under a bidirectional/send channel is parenthesised (`<-` associates with the leftmost chan); " +
			"R13.4 every reference to a *types.TypeName in type position is built by toObjectTypeExpr (package qualification through the file's import table); struct tags containing a back-quote or CR/LF are quoted",
		NotDecided: "identity after a full round trip through the printer and the parser",
	})
}

func runC13(c *fw.Ctx) {
	r131(c)
	r132(c)
	r133(c)
	r134(c)
	r95as(c, "R13.5")
}

// typeImplementers: concrete named types T in go/types with *T implementing types.Type.
func typeImplementers(c *fw.Ctx) []string {
	tp := c.ByPath["go/types"]
	if tp == nil {
		return nil
	}
	iface, _ := tp.Types.Scope().Lookup("Type").Type().Underlying().(*types.Interface)
	var r []string
	for _, n := range tp.Types.Scope().Names() {
		tn, ok := tp.Types.Scope().Lookup(n).(*types.TypeName)
		if !ok || tn.IsAlias() || !tn.Exported() {
			continue
		}
		if _, isStruct := tn.Type().Underlying().(*types.Struct); !isStruct {
			continue
		}
		if types.Implements(types.NewPointer(tn.Type()), iface) {
			r = append(r, n)
		}
	}
	sort.Strings(r)
	return r
}

// switchCaseTypes returns, for the (first) type switch in fd, go/types type name -> case clause.
func switchCaseTypes(info *types.Info, fd *ast.FuncDecl) (map[string]*ast.CaseClause, *ast.TypeSwitchStmt) {
	var sw *ast.TypeSwitchStmt
	inspectFunc(fd, func(n ast.Node) bool {
		if s, ok := n.(*ast.TypeSwitchStmt); ok && sw == nil {
			sw = s
		}
		return sw == nil
	})
	if sw == nil {
		return nil, nil
	}
	r := map[string]*ast.CaseClause{}
	for _, cl := range sw.Body.List {
		cc := cl.(*ast.CaseClause)
		for _, e := range cc.List {
			t := info.TypeOf(e)
			if t == nil {
				continue
			}
			t = types.Unalias(t)
			if p, ok := t.(*types.Pointer); ok {
				if n, ok := types.Unalias(p.Elem()).(*types.Named); ok && n.Obj().Pkg() != nil && n.Obj().Pkg().Path() == "go/types" {
					r[n.Obj().Name()] = cc
				}
			}
		}
		if cc.List == nil {
			r["default"] = cc
		}
	}
	return r, sw
}

func r131(c *fw.Ctx) {
	const rule = "R13.1"
	fd, p := needDecl(c, rule, "toType")
	if fd == nil {
		return
	}
	cases, _ := switchCaseTypes(p.TypesInfo, fd)
	if cases == nil {
		c.Undecided(rule, "toType/shape", fd.Pos(), "no type switch")
		return
	}
	impl := typeImplementers(c)
	c.Floor(rule, "types.Type implementers", len(impl), 12)
	except := map[string]string{"Tuple": "a tuple is not a type expression; parameter/result lists are emitted by toFieldList"}
	for _, t := range impl {
		if why, ok := except[t]; ok {
			c.OK(rule, "toType/"+t, fd.Pos(), "excepted: %s", why)
			continue
		}
		_, ok := cases[t]
		c.Check(ok, rule, "toType/"+t, fd.Pos(), "toType has no case for *types.%s: a type of that kind cannot be emitted (runtime panic)", t)
	}
}

// accessorReads collects, for the functions reachable from the roots (callees resolved by type,
// not crossing `stop`), the methods called on receivers of go/types types: "Chan.Dir", "Var.Name", ...
func accessorReads(c *fw.Ctx, roots []*types.Func, stop map[*types.Func]bool) map[string]bool {
	reads := map[string]bool{}
	seen := map[*types.Func]bool{}
	var visit func(fn *types.Func)
	scan := func(p *packages.Package, n ast.Node) {
		ast.Inspect(n, func(m ast.Node) bool {
			call, ok := m.(*ast.CallExpr)
			if !ok {
				return true
			}
			fn, ok := callee(p.TypesInfo, call).(*types.Func)
			if !ok {
				return true
			}
			if fn.Pkg() != nil && fn.Pkg().Path() == "go/types" {
				if name := staticMethodName(p.TypesInfo, call, fn); name != "" {
					reads[name] = true
				}
				return true
			}
			if c.IsAnalysed(fn.Pkg()) && !stop[fn] {
				visit(fn)
			}
			return true
		})
	}
	visit = func(fn *types.Func) {
		if seen[fn] {
			return
		}
		seen[fn] = true
		fd := c.DeclOf(fn)
		if fd == nil || fd.Body == nil {
			return
		}
		scan(c.PkgOfDecl(fd), fd.Body)
	}
	for _, r := range roots {
		visit(r)
	}
	return reads
}

// identity-relevant accessors per type (Go spec, "Type identity"); alternatives separated by "|".
var identityComponents = map[string][]string{
	"Array":     {"Array.Len", "Array.Elem"},
	"Slice":     {"Slice.Elem"},
	"Pointer":   {"Pointer.Elem"},
	"Chan":      {"Chan.Dir", "Chan.Elem"},
	"Map":       {"Map.Key", "Map.Elem"},
	"Struct":    {"Struct.NumFields", "Struct.Field", "Struct.Tag", "Var.Name", "Var.Embedded", "Var.Type"},
	"Signature": {"Signature.Params", "Signature.Results", "Signature.Variadic", "Signature.TypeParams", "Tuple.Len", "Tuple.At", "Var.Type"},
	"Interface": {"Interface.NumEmbeddeds", "Interface.EmbeddedType", "Interface.NumExplicitMethods", "Interface.ExplicitMethod", "Func.Name", "Func.Type|Func.Signature"},
	"Named":     {"Named.Obj", "Named.TypeArgs"},
	"Alias":     {"Alias.Obj", "Alias.TypeArgs"},
	"Union":     {"Union.Len", "Union.Term", "Term.Tilde", "Term.Type"},
	"TypeParam": {"TypeParam.Obj"},
	"Basic":     {"Basic.Name|Basic.Kind"},
}

func r132(c *fw.Ctx) {
	const rule = "R13.2"
	fd, p := needDecl(c, rule, "toType")
	if fd == nil {
		return
	}
	info := p.TypesInfo
	toTypeFn, _ := info.Defs[fd.Name].(*types.Func)
	cases, _ := switchCaseTypes(info, fd)
	n := 0
	for _, tname := range sortedKeys(identityComponents) {
		cc, ok := cases[tname]
		if !ok {
			continue // reported by R13.1
		}
		// reads in the case body itself + in helpers called from it (not through toType)
		reads := map[string]bool{}
		var roots []*types.Func
		for _, st := range cc.Body {
			ast.Inspect(st, func(m ast.Node) bool {
				if call, ok := m.(*ast.CallExpr); ok {
					if fn, ok := callee(info, call).(*types.Func); ok {
						if fn.Pkg() != nil && fn.Pkg().Path() == "go/types" {
							reads[staticMethodName(info, call, fn)] = true
						} else if c.IsAnalysed(fn.Pkg()) && fn != toTypeFn {
							roots = append(roots, fn)
						}
					}
				}
				return true
			})
		}
		for k := range accessorReads(c, roots, map[*types.Func]bool{toTypeFn: true}) {
			reads[k] = true
		}
		for _, comp := range identityComponents[tname] {
			okc := false
			for _, alt := range strings.Split(comp, "|") {
				if reads[alt] {
					okc = true
				}
			}
			n++
			c.Check(okc, rule, "toType/"+tname+"/"+comp, cc.Pos(), "the syntax built for *types.%s never reads %s: that component of the type cannot be reproduced", tname, comp)
		}
	}
	c.Floor(rule, "identity components", n, 35)

	// channel direction table: types.SendRecv/SendOnly/RecvOnly -> ast.SEND|ast.RECV / ast.SEND / ast.RECV
	t := extractTable(p, "chanDirs")
	if t.Err != "" {
		c.Undecided(rule, "chanDirs", token.NoPos, "direction table: %s", t.Err)
		return
	}
	want := map[int64]int64{int64(types.SendRecv): int64(ast.SEND | ast.RECV), int64(types.SendOnly): int64(ast.SEND), int64(types.RecvOnly): int64(ast.RECV)}
	got := map[int64]int64{}
	for _, r := range t.Rows {
		k, _ := constInt(info, r.KeyExpr)
		if r.KeyExpr == nil {
			k = -1
		}
		v, ok := constInt(info, r.Val)
		if ok {
			got[k] = v
		}
	}
	for _, k := range []int64{int64(types.SendRecv), int64(types.SendOnly), int64(types.RecvOnly)} {
		c.Check(got[k] == want[k], rule, sprintf("chanDirs/%d", k), t.Lit.Pos(), "types.ChanDir %d maps to ast direction bits %d, expected %d", k, got[k], want[k])
	}
	// the table is indexed by t.Dir()
	if cfd, cp := needDecl(c, rule, "toChanType"); cfd != nil {
		ok := false
		inspectFunc(cfd, func(m ast.Node) bool {
			if ix, isIx := m.(*ast.IndexExpr); isIx {
				if id, isId := unparen(ix.X).(*ast.Ident); isId && cp.TypesInfo.Uses[id] == t.Obj {
					if call, isCall := unparen(ix.Index).(*ast.CallExpr); isCall {
						if fn, isFn := callee(cp.TypesInfo, call).(*types.Func); isFn && shortName(fn) == "Chan.Dir" {
							ok = true
						}
					}
				}
			}
			return true
		})
		c.Check(ok, rule, "toChanType/dir-from-table", cfd.Pos(), "the emitted direction must be chanDirs[t.Dir()]")
	}
}

func r133(c *fw.Ctx) {
	const rule = "R13.3"
	p := c.Pkg("")
	info := p.TypesInfo
	n := 0
	for _, fd := range c.Decls() {
		if c.PkgOfDecl(fd) != p {
			continue
		}
		fname := declName(c, fd)
		inspectFunc(fd, func(m ast.Node) bool {
			lit, ok := m.(*ast.CompositeLit)
			if !ok || !namedIs(info.TypeOf(lit), "go/ast", "ChanType") {
				return true
			}
			n++
			// a ParenExpr construction (or a helper producing one) must exist in the function, control-dependent on the element's direction
			hasParen := false
			inspectFunc(fd, func(k ast.Node) bool {
				if l, ok := k.(*ast.CompositeLit); ok && namedIs(info.TypeOf(l), "go/ast", "ParenExpr") {
					hasParen = true
				}
				return true
			})
			c.Check(hasParen, rule, fname+"/chan-element-parenthesised", lit.Pos(),
				"a channel type is built without ever parenthesising its element: `chan (<-chan T)` is printed `chan <-chan T`, which Go reads as `chan<- (chan T)`")
			return true
		})
	}
	c.Floor(rule, "ChanType constructions", n, 1)
}

func r134(c *fw.Ctx) {
	const rule = "R13.4"
	p := c.Pkg("")
	info := p.TypesInfo
	// (a) in the type-to-syntax helpers, an identifier for a named thing (t.Obj()) is only ever produced
	// through toObjectTypeExpr: no ast.Ident / ident(...) built from Obj().Name() in those functions.
	helpers := []string{"toType", "toNamedType", "toAliasType", "toRecvType", "toTypeArgs"}
	n := 0
	for _, h := range helpers {
		fd, _ := needDecl(c, rule, h)
		if fd == nil {
			continue
		}
		bad := token.NoPos
		uses := false
		inspectFunc(fd, func(m ast.Node) bool {
			switch x := m.(type) {
			case *ast.CallExpr:
				if isFunc(callee(info, x), fw.Mod, "toObjectTypeExpr") {
					uses = true
				}
			case *ast.CompositeLit:
				if namedIs(info.TypeOf(x), "go/ast", "Ident") {
					f := structFields(info, x)
					if e := f["Name"]; e != nil && strings.Contains(exprString(e), "Obj().Name()") {
						bad = x.Pos()
					}
				}
			}
			return true
		})
		n++
		c.Check(!bad.IsValid(), rule, h+"/qualified-through-import-table", fd.Pos(), "a type name is emitted as a bare identifier built from Obj().Name(): types of other packages lose their qualification")
		if h == "toNamedType" || h == "toAliasType" || h == "toRecvType" {
			c.Check(uses, rule, h+"/uses-toObjectTypeExpr", fd.Pos(), "named/alias types must be emitted through toObjectTypeExpr")
		}
	}
	// toObjectTypeExpr: foreign package => SelectorExpr on the file's import
	if fd, _ := needDecl(c, rule, "toObjectTypeExpr"); fd != nil {
		imp, sel := false, false
		inspectFunc(fd, func(m ast.Node) bool {
			switch x := m.(type) {
			case *ast.CallExpr:
				if fn, ok := callee(info, x).(*types.Func); ok && fn.Name() == "newImport" {
					imp = true
				}
			case *ast.CompositeLit:
				if namedIs(info.TypeOf(x), "go/ast", "SelectorExpr") {
					sel = true
				}
			}
			return true
		})
		n++
		c.Check(imp && sel, rule, "toObjectTypeExpr/selector-on-import", fd.Pos(), "foreign type names must be emitted as <import>.<Name> with the import taken from the current file's table")
	}
	// (b) struct tags: quoting when the tag contains a back-quote or CR/LF
	if fd, _ := needDecl(c, rule, "toTag"); fd != nil {
		chars := ""
		quoted := false
		inspectFunc(fd, func(m ast.Node) bool {
			if call, ok := m.(*ast.CallExpr); ok {
				if fn, ok := callee(info, call).(*types.Func); ok {
					if fn.Pkg() != nil && fn.Pkg().Path() == "strings" && fn.Name() == "ContainsAny" && len(call.Args) == 2 {
						chars, _ = constString(info, call.Args[1])
					}
					if fn.Pkg() != nil && fn.Pkg().Path() == "strconv" && fn.Name() == "Quote" {
						quoted = true
					}
				}
			}
			return true
		})
		n++
		c.Check(quoted && strings.Contains(chars, "`") && strings.Contains(chars, "\r"), rule, "toTag/raw-string-safe", fd.Pos(),
			"tags containing a back-quote or a carriage return cannot be written as raw strings (raw strings drop \\r): they must be quoted; tested characters: %q", chars)
	}
	c.Floor(rule, "qualification sites", n, 6)
}

// staticMethodName names a go/types method call by the static type of its receiver
// expression ("Var.Name" even though Name is promoted from the embedded object).
func staticMethodName(info *types.Info, call *ast.CallExpr, fn *types.Func) string {
	sig, _ := fn.Type().(*types.Signature)
	if sig == nil || sig.Recv() == nil {
		return ""
	}
	if sel, ok := unparen(call.Fun).(*ast.SelectorExpr); ok {
		if t := info.TypeOf(sel.X); t != nil {
			t = types.Unalias(t)
			if p, ok := t.(*types.Pointer); ok {
				t = types.Unalias(p.Elem())
			}
			if n, ok := t.(*types.Named); ok {
				return n.Obj().Name() + "." + fn.Name()
			}
		}
	}
	return shortName(fn)
}
