package rules

import (
	"go/ast"
	"go/token"
	"go/types"

	"gogenvet/fw"
)

// R3.6: the type reported for an operator expression is untyped only when the operands are (Go spec,
// Constant expressions: "any other operation on untyped constants results in an untyped constant of
// the same kind"; for shifts the left operand alone decides; an operation with a typed constant
// operand yields a typed constant). The call matcher maps a result type to its untyped counterpart
// when a flag is set; every place that sets that flag must therefore sit under a test of the
// operands' untypedness. A flag set merely because the operation could be folded reports
// `-int32(1)` and `int32(1) + int32(2)` as untyped int, so `x := -int32(1)` is reported int by the
// builder while Go makes it int32.
//
// Anchors are found by role: the flag is the package constant K such that some `if flags&K != 0`
// body selects types.Typ[types.Untyped*]; an untypedness tester is a function whose body (or a
// callee's, two levels) consults go/types.IsUntyped.
func r36(c *fw.Ctx) {
	const rule = "R3.6"
	p := c.Pkg("")
	info := p.TypesInfo

	// 1. the flag constant, by role
	flagCands := map[types.Object]token.Pos{}
	for _, fd := range c.Decls() {
		if c.PkgOfDecl(fd) != p || fd.Body == nil {
			continue
		}
		ast.Inspect(fd.Body, func(n ast.Node) bool {
			is, ok := n.(*ast.IfStmt)
			if !ok {
				return true
			}
			var ks []types.Object
			ast.Inspect(is.Cond, func(m ast.Node) bool {
				if be, ok := m.(*ast.BinaryExpr); ok && be.Op == token.AND {
					for _, e := range []ast.Expr{be.X, be.Y} {
						if id, ok := unparen(e).(*ast.Ident); ok {
							if k, ok := info.Uses[id].(*types.Const); ok && k.Pkg() == p.Types {
								ks = append(ks, k)
							}
						}
					}
				}
				return true
			})
			if len(ks) == 0 {
				return true
			}
			selectsUntyped := false
			ast.Inspect(is.Body, func(m ast.Node) bool {
				if sel, ok := m.(*ast.SelectorExpr); ok {
					if k, ok := info.Uses[sel.Sel].(*types.Const); ok && k.Pkg() != nil && k.Pkg().Path() == "go/types" {
						switch k.Name() {
						case "UntypedInt", "UntypedFloat", "UntypedBool":
							selectsUntyped = true
						}
					}
				}
				return true
			})
			if selectsUntyped {
				for _, k := range ks {
					flagCands[k] = is.Pos()
				}
			}
			return true
		})
	}
	if len(flagCands) != 1 {
		c.Undecided(rule, "anchor/untyped-result-flag", token.NoPos, "expected exactly one flag constant whose test selects types.Typ[types.Untyped*] for the result type, found %d", len(flagCands))
		return
	}
	var flag types.Object
	for k := range flagCands {
		flag = k
	}

	// 2. untypedness testers
	testerMemo := map[*types.Func]bool{}
	var isTester func(fn *types.Func, depth int) bool
	isTester = func(fn *types.Func, depth int) bool {
		if fn == nil {
			return false
		}
		if v, ok := testerMemo[fn]; ok {
			return v
		}
		testerMemo[fn] = false
		fd := c.DeclOf(fn)
		if fd == nil || fd.Body == nil {
			return false
		}
		fi := c.PkgOfDecl(fd).TypesInfo
		found := false
		ast.Inspect(fd.Body, func(m ast.Node) bool {
			switch x := m.(type) {
			case *ast.SelectorExpr:
				if k, ok := fi.Uses[x.Sel].(*types.Const); ok && k.Pkg() != nil && k.Pkg().Path() == "go/types" && k.Name() == "IsUntyped" {
					found = true
				}
			case *ast.CallExpr:
				if depth > 0 {
					if g, ok := callee(fi, x).(*types.Func); ok && isTester(g, depth-1) {
						found = true
					}
				}
			}
			return !found
		})
		testerMemo[fn] = found
		return found
	}

	mentionsOperand := func(e ast.Expr) (whole bool, any bool) {
		ast.Inspect(e, func(m ast.Node) bool {
			ex, ok := m.(ast.Expr)
			if !ok {
				return true
			}
			if ix, ok := m.(*ast.IndexExpr); ok {
				if sl, ok := info.TypeOf(ix.X).(*types.Slice); ok && isElemPtr(sl.Elem()) {
					any = true // one element of the operand list
					return false
				}
			}
			t := info.TypeOf(ex)
			if t == nil {
				return true
			}
			if sl, ok := t.(*types.Slice); ok && isElemPtr(sl.Elem()) {
				any, whole = true, true
			} else if isElemPtr(t) {
				any = true
			}
			return true
		})
		return
	}

	// 3. every site that sets the flag
	n := 0
	for _, fd := range c.Decls() {
		if c.PkgOfDecl(fd) != p || fd.Body == nil {
			continue
		}
		fname := declName(c, fd)
		var stack []ast.Node
		ast.Inspect(fd.Body, func(m ast.Node) bool {
			if m == nil {
				stack = stack[:len(stack)-1]
				return true
			}
			stack = append(stack, m)
			as, ok := m.(*ast.AssignStmt)
			if !ok || len(as.Rhs) != 1 {
				return true
			}
			sets := false
			if as.Tok == token.OR_ASSIGN || as.Tok == token.ASSIGN {
				ast.Inspect(as.Rhs[0], func(k ast.Node) bool {
					if id, ok := k.(*ast.Ident); ok && info.Uses[id] == flag {
						sets = true
					}
					return true
				})
				if as.Tok == token.ASSIGN {
					// flags = flags | K
					if be, ok := unparen(as.Rhs[0]).(*ast.BinaryExpr); !ok || be.Op != token.OR {
						sets = false
					}
				}
			}
			if !sets {
				return true
			}
			n++
			// conjuncts of every enclosing if whose body (not else) contains the site
			var conj []ast.Expr
			var split func(e ast.Expr)
			split = func(e ast.Expr) {
				e = unparen(e)
				if be, ok := e.(*ast.BinaryExpr); ok && be.Op == token.LAND {
					split(be.X)
					split(be.Y)
					return
				}
				conj = append(conj, e)
			}
			for i := len(stack) - 2; i >= 0; i-- {
				if is, ok := stack[i].(*ast.IfStmt); ok && i+1 < len(stack) && stack[i+1] == ast.Node(is.Body) {
					split(is.Cond)
				}
			}
			whole, partial, tableTest := false, false, false
			for _, e := range conj {
				// a conjunct that is (or contains, outside || and !) a tester call over the operands
				if call, ok := e.(*ast.CallExpr); ok {
					if g, ok := callee(info, call).(*types.Func); ok && isTester(g, 2) {
						for _, a := range call.Args {
							w, any := mentionsOperand(a)
							if w {
								whole = true
							} else if any {
								partial = true
							}
						}
					}
				}
				if be, ok := e.(*ast.BinaryExpr); ok && be.Op == token.EQL {
					for _, side := range []ast.Expr{be.X, be.Y} {
						if ix, ok := unparen(side).(*ast.IndexExpr); ok {
							if id, ok := unparen(ix.X).(*ast.Ident); ok {
								if v, ok := info.Uses[id].(*types.Var); ok && v.Parent() == p.Types.Scope() {
									tableTest = true
								}
							}
						}
					}
				}
			}
			ok2 := whole || (partial && tableTest)
			why := "no enclosing condition tests the operands' types for untypedness"
			if partial && !tableTest {
				why = "the enclosing condition tests a single operand only, which is right for one operator class (shifts: the left operand decides) but the site is not restricted to such a class by a table test"
			}
			c.Check(ok2, rule, sprintf("%s/sets-untyped-result-flag#%d/under-operand-untypedness-test", fname, n), as.Pos(),
				"the call matcher is told to report the untyped counterpart of the result type; that is Go's typing only when the operands are untyped (all of them; the left one for shifts) - %s: -int32(1) and int32(1)+int32(2) are reported untyped int, Go types them int32", why)
			return true
		})
	}
	c.Floor(rule, "sites that set the untyped-result flag", n, 2)
}
