package rules

import (
	"go/ast"
	"go/token"
	"go/types"
	"sort"
	"strings"

	"golang.org/x/tools/go/packages"

	"gogenvet/fw"
)

func init() {
	register("C16", Prop{
		NeedSSA: true,
		Run:     runC16,
		Explanation: "R16.1 context save/restore pairing as a typestate over every implementer of codeBlock: on every normal path of End each slot that can be open is closed exactly once, the slot opened where the object is allocated is closed last (LIFO), a method that closes a slot reopens the same slot or records the closure in a field that End tests, closes name slots of the receiver only, opens register the slot's owner as the current block, and the initialiser context returned by endInit/resetInit is stored back; " +
			"R16.2 peek/consume pairing on the operand stack: every GetArgs(n)/Get(-k) whose elements are emitted is followed on every normal path by removal of the same symbolic count, and the replacement count of Ret matches; " +
			"R16.3 endBlockStmt truncates the stack to the base saved by the matching startBlockStmt and restores the whole saved context; start/endFuncBody save and restore the same set of function-context fields",
		NotDecided: "arity of operations that delegate to other builder calls (listed as delegating); API misuse (End without Then)",
	})
}

func runC16(c *fw.Ctx) {
	r161(c)
	r163(c)
	r162(c)
	r164(c)
}

type slotOp struct {
	open   bool
	owner  types.Object // variable holding the block object
	ownerT *types.Named
	field  string
	call   *ast.CallExpr
	cur    ast.Expr // the `current` argument of an open
}

var slotOpeners = map[string]int{"CodeBuilder.startBlockStmt": 3, "CodeBuilder.startVBlockStmt": 2, "CodeBuilder.startFuncBody": 2}
var slotClosers = map[string]int{"CodeBuilder.endBlockStmt": 0, "CodeBuilder.endVBlockStmt": 0, "CodeBuilder.endFuncBody": 0}

func namedOf(t types.Type) *types.Named {
	t = types.Unalias(t)
	if p, ok := t.(*types.Pointer); ok {
		t = types.Unalias(p.Elem())
	}
	n, _ := t.(*types.Named)
	return n
}

// slotOpOf recognises an open/close call and resolves its slot.
func slotOpOf(info *types.Info, call *ast.CallExpr) *slotOp {
	fn, ok := callee(info, call).(*types.Func)
	if !ok || fn == nil || fn.Pkg() == nil || fn.Pkg().Path() != fw.Mod {
		return nil
	}
	name := shortName(fn)
	idx, isOpen := slotOpeners[name]
	if !isOpen {
		var isClose bool
		idx, isClose = slotClosers[name]
		if !isClose {
			return nil
		}
	}
	if idx >= len(call.Args) {
		return nil
	}
	arg := unparen(call.Args[idx])
	if u, ok := arg.(*ast.UnaryExpr); ok && u.Op == token.AND {
		arg = unparen(u.X)
	}
	sel, ok := arg.(*ast.SelectorExpr)
	if !ok {
		return nil
	}
	id, ok := unparen(sel.X).(*ast.Ident)
	if !ok {
		return nil
	}
	obj := info.Uses[id]
	if obj == nil {
		return nil
	}
	op := &slotOp{open: isOpen, owner: obj, ownerT: namedOf(obj.Type()), field: sel.Sel.Name, call: call}
	if isOpen {
		op.cur = call.Args[0]
	}
	return op
}

func recvObj(info *types.Info, fd *ast.FuncDecl) types.Object {
	if fd.Recv == nil || len(fd.Recv.List) == 0 || len(fd.Recv.List[0].Names) == 0 {
		return nil
	}
	return info.Defs[fd.Recv.List[0].Names[0]]
}

func r161(c *fw.Ctx) {
	const rule = "R16.1"
	p := c.Pkg("")
	info := p.TypesInfo
	cbIface, _ := p.Types.Scope().Lookup("codeBlock").Type().Underlying().(*types.Interface)
	if cbIface == nil {
		c.Undecided(rule, "anchor/codeBlock", token.NoPos, "interface codeBlock not found")
		return
	}
	// implementers
	var impls []*types.Named
	for _, n := range p.Types.Scope().Names() {
		tn, ok := p.Types.Scope().Lookup(n).(*types.TypeName)
		if !ok || tn.IsAlias() {
			continue
		}
		nt, ok := tn.Type().(*types.Named)
		if !ok {
			continue
		}
		if _, isI := nt.Underlying().(*types.Interface); isI {
			continue
		}
		if types.Implements(types.NewPointer(nt), cbIface) {
			// only types that declare End themselves (not those that merely embed the interface)
			declares := false
			for i := 0; i < nt.NumMethods(); i++ {
				if nt.Method(i).Name() == "End" && c.DeclOf(nt.Method(i)) != nil {
					declares = true
				}
			}
			if declares {
				impls = append(impls, nt)
			}
		}
	}
	c.Floor(rule, "codeBlock implementers", len(impls), 10)

	// all slot operations of the package, grouped by enclosing function
	type site struct {
		op *slotOp
		fd *ast.FuncDecl
	}
	var sites []site
	plumbing := map[string]bool{"(*CodeBuilder).startFuncBody": true, "(*CodeBuilder).endFuncBody": true, "(*CodeBuilder).startBlockStmt": true,
		"(*CodeBuilder).endBlockStmt": true, "(*CodeBuilder).startVBlockStmt": true, "(*CodeBuilder).endVBlockStmt": true}
	for _, fd := range c.Decls() {
		if c.PkgOfDecl(fd) != p || plumbing[declName(c, fd)] {
			continue
		}
		inspectFunc(fd, func(n ast.Node) bool {
			if call, ok := n.(*ast.CallExpr); ok {
				if op := slotOpOf(info, call); op != nil {
					sites = append(sites, site{op, fd})
				}
			}
			return true
		})
	}
	nOpen, nClose := 0, 0
	for _, s := range sites {
		if s.op.open {
			nOpen++
		} else {
			nClose++
		}
	}
	c.Floor(rule, "open sites", nOpen, 14)
	c.Floor(rule, "close sites", nClose, 17)

	methodsOf := func(t *types.Named) map[string]*ast.FuncDecl {
		r := map[string]*ast.FuncDecl{}
		for i := 0; i < t.NumMethods(); i++ {
			if fd := c.DeclOf(t.Method(i)); fd != nil {
				r[t.Method(i).Name()] = fd
			}
		}
		return r
	}

	for _, t := range impls {
		tname := t.Obj().Name()
		meths := methodsOf(t)
		// slots of T and their classification
		slots := map[string]bool{}
		primary := ""
		for _, s := range sites {
			if s.op.ownerT != t {
				continue
			}
			slots[s.op.field] = true
			if s.op.open {
				// (open-consistency) the block registered as current is the slot's owner
				curOK := false
				if id, ok := unparen(s.op.cur).(*ast.Ident); ok && info.Uses[id] == s.op.owner {
					curOK = true
				}
				c.Check(curOK, rule, tname+"/open-registers-owner/"+declName(c, s.fd)+"/"+s.op.field, s.op.call.Pos(),
					"%s opens slot %s.%s but registers %s as the current block: End would be dispatched to another object", declName(c, s.fd), tname, s.op.field, exprString(s.op.cur))
				isRecv := s.fd.Recv != nil && recvObj(info, s.fd) == s.op.owner
				if !isRecv {
					if primary != "" && primary != s.op.field {
						c.Violate(rule, tname+"/primary-slot", s.op.call.Pos(), "allocation sites open different slots (%s, %s)", primary, s.op.field)
					}
					primary = s.op.field
				}
			}
		}
		if len(slots) == 0 {
			// ValueDecl: initialiser context handled below; anything else is a block that saves nothing
			if tname != "ValueDecl" {
				c.Undecided(rule, tname+"/slots", t.Obj().Pos(), "codeBlock implementer %s has no save slot the rule understands", tname)
			}
			continue
		}
		if primary == "" && len(slots) == 1 {
			for s := range slots {
				primary = s
			}
		}
		if primary == "" {
			c.Undecided(rule, tname+"/primary-slot", t.Obj().Pos(), "cannot determine which slot of %s is opened at allocation", tname)
			continue
		}
		// (d) closes in methods of T name the receiver's slots
		for _, s := range sites {
			if s.op.open || s.fd.Recv == nil {
				continue
			}
			if rt := namedOf(info.TypeOf(s.fd.Recv.List[0].Type)); rt == t {
				c.Check(recvObj(info, s.fd) == s.op.owner, rule, tname+"/close-own-slot/"+declName(c, s.fd)+"/"+s.op.field, s.op.call.Pos(),
					"%s closes slot %s of another object", declName(c, s.fd), s.op.field)
			}
		}
		// summaries: for a method of T, the close/open sequence on the receiver per normal path
		type pathOps struct {
			ops   []string // "close:old", "open:old2", "set:body", "call:M"
			facts []pathFact
		}
		var opsOf func(fd *ast.FuncDecl, depth int) ([]pathOps, bool)
		opsOf = func(fd *ast.FuncDecl, depth int) ([]pathOps, bool) {
			recv := recvObj(info, fd)
			paths, trunc := enumPaths(info, fd.Body)
			if trunc {
				return nil, false
			}
			var out []pathOps
			for _, pa := range paths {
				if pa.Abnormal {
					continue
				}
				cur := []pathOps{{facts: pa.Facts}}
				appendOp := func(op string) {
					for i := range cur {
						cur[i].ops = append(cur[i].ops[:len(cur[i].ops):len(cur[i].ops)], op)
					}
				}
				// field assignments p.f = <non-nil>
				setAt := map[token.Pos]string{}
				for _, n := range pa.Nodes {
					if as, ok := n.(*ast.AssignStmt); ok {
						for i, l := range as.Lhs {
							if sel, ok := unparen(l).(*ast.SelectorExpr); ok {
								if id, ok := unparen(sel.X).(*ast.Ident); ok && info.Uses[id] == recv && i < len(as.Rhs) && exprString(as.Rhs[i]) != "nil" {
									setAt[as.End()] = sel.Sel.Name
								}
							}
						}
					}
				}
				type ev struct {
					pos token.Pos
					op  string
					m   *ast.FuncDecl
				}
				var evs []ev
				for _, call := range callsIn(pa.Nodes) {
					if op := slotOpOf(info, call); op != nil && op.owner == recv {
						k := "close:"
						if op.open {
							k = "open:"
						}
						evs = append(evs, ev{call.End(), k + op.field, nil})
						continue
					}
					// delegation to another method of T on the receiver
					if sel, ok := unparen(call.Fun).(*ast.SelectorExpr); ok {
						if id, ok := unparen(sel.X).(*ast.Ident); ok && info.Uses[id] == recv && recv != nil {
							if m, ok := meths[sel.Sel.Name]; ok && m != fd {
								evs = append(evs, ev{call.End(), "call", m})
							}
						}
					}
				}
				for pos, f := range setAt {
					evs = append(evs, ev{pos, "set:" + f, nil})
				}
				sort.SliceStable(evs, func(i, j int) bool { return evs[i].pos < evs[j].pos })
				ok := true
				for _, e := range evs {
					if e.m != nil {
						if depth > 2 {
							ok = false
							break
						}
						sub, subOK := opsOf(e.m, depth+1)
						if !subOK {
							ok = false
							break
						}
						var next []pathOps
						for _, cp := range cur {
							for _, sp := range sub {
								next = append(next, pathOps{ops: append(append([]string{}, cp.ops...), sp.ops...), facts: append(append([]pathFact{}, cp.facts...), sp.facts...)})
							}
						}
						if len(sub) > 0 {
							cur = next
						}
						continue
					}
					appendOp(e.op)
				}
				if !ok {
					return nil, false
				}
				out = append(out, cur...)
			}
			return out, true
		}
		// helpers that End delegates to are part of End, not state transitions of their own
		endHelpers := map[string]bool{}
		if efd := meths["End"]; efd != nil {
			var mark func(fd *ast.FuncDecl)
			mark = func(fd *ast.FuncDecl) {
				recv := recvObj(info, fd)
				inspectFunc(fd, func(n ast.Node) bool {
					if call, ok := n.(*ast.CallExpr); ok {
						if sel, ok := unparen(call.Fun).(*ast.SelectorExpr); ok {
							if id, ok := unparen(sel.X).(*ast.Ident); ok && recv != nil && info.Uses[id] == recv {
								if m, ok := meths[sel.Sel.Name]; ok && !endHelpers[sel.Sel.Name] && sel.Sel.Name != "End" {
									endHelpers[sel.Sel.Name] = true
									mark(m)
								}
							}
						}
					}
					return true
				})
			}
			mark(efd)
		}
		// closers other than End: slot -> field recorded
		recorded := map[string]string{}
		for mname, mfd := range meths {
			if mname == "End" || endHelpers[mname] {
				continue
			}
			pops, ok := opsOf(mfd, 0)
			if !ok {
				c.Undecided(rule, tname+"."+mname+"/paths", mfd.Pos(), "cannot enumerate paths")
				continue
			}
			for _, po := range pops {
				for i, op := range po.ops {
					if !strings.HasPrefix(op, "close:") {
						continue
					}
					slot := strings.TrimPrefix(op, "close:")
					reopened, rec := false, ""
					for _, later := range po.ops[i+1:] {
						if later == "open:"+slot {
							reopened = true
						}
						if strings.HasPrefix(later, "open:") && later != "open:"+slot && !reopened {
							rec = "" // opening another slot instead is reported below
						}
						if strings.HasPrefix(later, "set:") && rec == "" {
							rec = strings.TrimPrefix(later, "set:")
						}
					}
					wrongReopen := false
					for _, later := range po.ops[i+1:] {
						if strings.HasPrefix(later, "open:") && later != "open:"+slot {
							wrongReopen = true
						}
					}
					c.Check((reopened || rec != "") && !wrongReopen, rule, sprintf("%s.%s/close-%s-then-reopen-or-record", tname, mname, slot), mfd.Pos(),
						"%s.%s closes slot %s and then neither reopens the same slot nor records the closure in a field (ops on this path: %v)", tname, mname, slot, po.ops)
					if !reopened && rec != "" {
						recorded[slot] = rec
					}
				}
			}
		}
		// End
		efd := meths["End"]
		if efd == nil {
			c.Undecided(rule, tname+".End", t.Obj().Pos(), "End not found")
			continue
		}
		pops, ok := opsOf(efd, 0)
		if !ok {
			c.Undecided(rule, tname+".End/paths", efd.Pos(), "cannot enumerate paths")
			continue
		}
		if len(pops) == 0 {
			c.Undecided(rule, tname+".End/paths", efd.Pos(), "End has no normal path")
			continue
		}
		cbParam := types.Object(nil)
		if len(efd.Type.Params.List) > 0 && len(efd.Type.Params.List[0].Names) > 0 {
			cbParam = info.Defs[efd.Type.Params.List[0].Names[0]]
		}
		recv := recvObj(info, efd)
		np := 0
		agg := map[string]string{} // key -> first failure detail ("" = ok)
		aggOrder := []string{}
		check := func(ok bool, key, format string, args ...any) {
			if _, seen := agg[key]; !seen {
				agg[key] = ""
				aggOrder = append(aggOrder, key)
			}
			if !ok && agg[key] == "" {
				agg[key] = sprintf(format, args...)
			}
		}
		for _, po := range pops {
			// infeasible: the CodeBuilder parameter is nil
			infeasible := false
			guard := map[string]bool{} // field -> known non-nil
			for _, f := range po.facts {
				be, ok := unparen(f.Cond).(*ast.BinaryExpr)
				if !ok || exprString(be.Y) != "nil" || (be.Op != token.NEQ && be.Op != token.EQL) {
					continue
				}
				nonNil := (be.Op == token.NEQ) == f.Val
				if id, ok := unparen(be.X).(*ast.Ident); ok && cbParam != nil && info.Uses[id] == cbParam && !nonNil {
					infeasible = true
				}
				if sel, ok := unparen(be.X).(*ast.SelectorExpr); ok {
					if id, ok := unparen(sel.X).(*ast.Ident); ok && info.Uses[id] == recv {
						guard[sel.Sel.Name] = nonNil
					}
				}
			}
			if infeasible {
				continue
			}
			np++
			var closes []string
			for _, op := range po.ops {
				if strings.HasPrefix(op, "close:") {
					closes = append(closes, strings.TrimPrefix(op, "close:"))
				}
				if strings.HasPrefix(op, "open:") {
					check(false, tname+".End/no-open", "End opens slot %s", op)
				}
			}
			cnt := map[string]int{}
			for _, s := range closes {
				cnt[s]++
			}
			key := sprintf("%s.End", tname)
			check(cnt[primary] == 1, key+"/closes-"+primary+"-once",
				"a normal path of %s.End closes the allocation slot %s %d times (closes on this path: %v): the enclosing block's scope, stack base and statement list are not restored", tname, primary, cnt[primary], closes)
			check(len(closes) > 0 && closes[len(closes)-1] == primary, key+"/"+primary+"-closed-last",
				"%s.End must close the allocation slot %s last (LIFO); closes on this path: %v", tname, primary, closes)
			for s := range slots {
				if s == primary {
					continue
				}
				rec, hasRec := recorded[s]
				switch {
				case hasRec && guard[rec]:
					// the other method already closed it
					check(cnt[s] == 0, key+"/"+s+"-not-closed-twice", "slot %s was already closed by the method that set %s; End closes it again", s, rec)
				case hasRec:
					val, known := guard[rec]
					check(cnt[s] == 1 && known && !val, key+"/closes-"+s+"-once",
						"slot %s of %s must be closed exactly once on the path where %s is still nil (closed %d times; guard known=%v)", s, tname, rec, cnt[s], known)
				default:
					check(cnt[s] == 1, key+"/closes-"+s+"-once", "slot %s of %s is closed %d times on a normal path of End (closes: %v)", s, tname, cnt[s], closes)
				}
			}
		}
		for _, k := range aggOrder {
			if agg[k] == "" {
				c.OK(rule, k, efd.Pos(), "holds on all %d feasible normal paths of End", np)
			} else {
				c.Violate(rule, k, efd.Pos(), "%s", agg[k])
			}
		}
		c.Units[rule+" paths of "+tname+".End"] = np
		if np == 0 {
			c.Undecided(rule, tname+".End/paths", efd.Pos(), "End has no feasible normal path")
		}
	}
	r161init(c, p)
}

// r161init: the initialiser context (ValueDecl): InitStart saves, endInit/resetInit restore and the
// returned outer declaration is stored back into cb.valDecl.
func r161init(c *fw.Ctx, p *packages.Package) {
	const rule = "R16.1"
	info := p.TypesInfo
	if fd, _ := needDecl(c, rule, "(*ValueDecl).InitStart"); fd != nil {
		savesOld, savesOuter := false, false
		inspectFunc(fd, func(n ast.Node) bool {
			as, ok := n.(*ast.AssignStmt)
			if !ok {
				return true
			}
			for i, l := range as.Lhs {
				ls := exprString(l)
				if strings.HasSuffix(ls, ".old") && i < len(as.Rhs) {
					if call, ok := as.Rhs[i].(*ast.CallExpr); ok && isFunc(callee(info, call), fw.Mod, "CodeBuilder.startInitExpr") {
						savesOld = true
					}
				}
				if strings.HasSuffix(ls, ".oldv") && len(as.Lhs) == len(as.Rhs) && strings.HasSuffix(exprString(as.Rhs[i]), ".valDecl") {
					savesOuter = true
				}
			}
			return true
		})
		c.Check(savesOld && savesOuter, rule, "ValueDecl.InitStart/saves-context", fd.Pos(), "InitStart must save the enclosing block (old) and the enclosing declaration (oldv)")
	}
	for _, m := range []string{"endInit", "resetInit"} {
		fd, _ := needDecl(c, rule, "(*ValueDecl)."+m)
		if fd == nil {
			continue
		}
		paths, _ := enumPaths(info, fd.Body)
		n := 0
		for _, pa := range paths {
			if pa.Abnormal {
				continue
			}
			n++
			cnt := 0
			for _, call := range callsIn(pa.Nodes) {
				if isFunc(callee(info, call), fw.Mod, "CodeBuilder.endInitExpr") && len(call.Args) == 1 && strings.HasSuffix(exprString(call.Args[0]), ".old") {
					cnt++
				}
			}
			c.Check(cnt == 1, rule, sprintf("ValueDecl.%s/restores-block#%d", m, n), fd.Pos(), "%s restores the enclosing block %d times on a normal path", m, cnt)
			// returns p.oldv
			retOK := false
			for _, nd := range pa.Nodes {
				if r, ok := nd.(*ast.ReturnStmt); ok && len(r.Results) == 1 && strings.HasSuffix(exprString(r.Results[0]), ".oldv") {
					retOK = true
				}
			}
			c.Check(retOK, rule, sprintf("ValueDecl.%s/returns-outer#%d", m, n), fd.Pos(), "%s must return the enclosing declaration (oldv)", m)
		}
		if n == 0 {
			c.Undecided(rule, "ValueDecl."+m+"/paths", fd.Pos(), "no normal path")
		}
	}
	for _, pr := range [][2]string{{"(*CodeBuilder).EndInit", "endInit"}, {"(*CodeBuilder).ResetInit", "resetInit"}} {
		fd, _ := needDecl(c, rule, pr[0])
		if fd == nil {
			continue
		}
		ok := false
		inspectFunc(fd, func(n ast.Node) bool {
			if as, isA := n.(*ast.AssignStmt); isA && len(as.Lhs) == 1 && len(as.Rhs) == 1 && strings.HasSuffix(exprString(as.Lhs[0]), ".valDecl") {
				if call, isC := as.Rhs[0].(*ast.CallExpr); isC && isFunc(callee(info, call), fw.Mod, "ValueDecl."+pr[1]) {
					ok = true
				}
			}
			return true
		})
		c.Check(ok, rule, strings.TrimPrefix(pr[0], "(*CodeBuilder).")+"/stores-outer-decl", fd.Pos(), "the declaration returned by %s must be stored back into the builder", pr[1])
	}
	// startInitExpr/endInitExpr are inverse
	if sfd, _ := needDecl(c, rule, "(*CodeBuilder).startInitExpr"); sfd != nil {
		if efd, _ := needDecl(c, rule, "(*CodeBuilder).endInitExpr"); efd != nil {
			sOK, eOK := false, false
			inspectFunc(sfd, func(n ast.Node) bool {
				if as, ok := n.(*ast.AssignStmt); ok && len(as.Lhs) == 2 && len(as.Rhs) == 2 {
					if strings.HasSuffix(exprString(as.Lhs[0]), ".current.codeBlock") && strings.HasSuffix(exprString(as.Rhs[1]), ".current.codeBlock") {
						sOK = true
					}
				}
				return true
			})
			inspectFunc(efd, func(n ast.Node) bool {
				if as, ok := n.(*ast.AssignStmt); ok && len(as.Lhs) == 1 && strings.HasSuffix(exprString(as.Lhs[0]), ".current.codeBlock") {
					if id, ok := as.Rhs[0].(*ast.Ident); ok && info.Uses[id] == info.Defs[efd.Type.Params.List[0].Names[0]] {
						eOK = true
					}
				}
				return true
			})
			c.Check(sOK && eOK, rule, "initExpr/save-restore-inverse", sfd.Pos(), "startInitExpr must return the block it replaces and endInitExpr must reinstall its argument")
		}
	}
}

func r163(c *fw.Ctx) {
	const rule = "R16.3"
	p := c.Pkg("")
	info := p.TypesInfo
	// startBlockStmt: new context {current, scope(parent = p.current.scope), p.stk.Len(), nil, nil, 0}; *old = previous context
	if fd, _ := needDecl(c, rule, "(*CodeBuilder).startBlockStmt"); fd != nil {
		var lit *ast.CompositeLit
		savesOld, parentOK := false, false
		inspectFunc(fd, func(n ast.Node) bool {
			switch x := n.(type) {
			case *ast.AssignStmt:
				for i, l := range x.Lhs {
					if st, ok := unparen(l).(*ast.StarExpr); ok && i < len(x.Rhs) && strings.HasSuffix(exprString(x.Rhs[i]), ".current.codeBlockCtx") {
						if isParamIdent(info, fd, st.X) {
							savesOld = true
						}
					}
				}
			case *ast.CompositeLit:
				if namedIs(info.TypeOf(x), fw.Mod, "codeBlockCtx") {
					lit = x
				}
			case *ast.CallExpr:
				if isFunc(callee(info, x), "go/types", "NewScope") && len(x.Args) >= 1 && strings.HasSuffix(exprString(x.Args[0]), ".current.scope") {
					parentOK = true
				}
			}
			return true
		})
		baseOK, curOK, cleanOK := false, false, false
		if lit != nil {
			f := structFields(info, lit)
			if e := f["base"]; e != nil {
				if call, ok := unparen(e).(*ast.CallExpr); ok && isFunc(callee(info, call), fw.Mod+"/internal", "Stack.Len") {
					baseOK = true
				}
			}
			if e := f["codeBlock"]; e != nil {
				if id, ok := unparen(e).(*ast.Ident); ok && info.Uses[id] == info.Defs[fd.Type.Params.List[0].Names[0]] {
					curOK = true
				}
			}
			cleanOK = exprString(f["stmts"]) == "nil" && exprString(f["label"]) == "nil"
			if v, ok := constInt(info, f["flows"]); !ok || v != 0 {
				cleanOK = false
			}
		}
		c.Check(savesOld, rule, "startBlockStmt/saves-previous-context", fd.Pos(), "the whole previous block context must be saved into *old")
		c.Check(baseOK, rule, "startBlockStmt/base-is-stack-length", fd.Pos(), "the new block's base must be the operand stack length at the time it starts")
		c.Check(curOK && parentOK, rule, "startBlockStmt/scope-and-owner", fd.Pos(), "the new context must register the given block and a scope whose parent is the current scope")
		c.Check(cleanOK, rule, "startBlockStmt/fresh-statement-state", fd.Pos(), "a new block must start with no statements, no pending label and no flow flags")
	}
	if fd, _ := needDecl(c, rule, "(*CodeBuilder).endBlockStmt"); fd != nil {
		var setLenPos, restorePos, stmtsPos, flowsPos token.Pos
		setLenArgOK, restoreWhole := false, false
		inspectFunc(fd, func(n ast.Node) bool {
			switch x := n.(type) {
			case *ast.CallExpr:
				if isFunc(callee(info, x), fw.Mod+"/internal", "Stack.SetLen") && len(x.Args) == 1 {
					setLenPos = x.Pos()
					setLenArgOK = strings.HasSuffix(exprString(x.Args[0]), ".current.base")
				}
			case *ast.AssignStmt:
				for i, l := range x.Lhs {
					ls := exprString(l)
					if strings.HasSuffix(ls, ".current.codeBlockCtx") && i < len(x.Rhs) {
						restorePos = x.Pos()
						if st, ok := unparen(x.Rhs[i]).(*ast.StarExpr); ok {
							if isParamIdent(info, fd, st.X) {
								restoreWhole = true
							}
						}
					}
					if i < len(x.Rhs) && strings.HasSuffix(exprString(x.Rhs[i]), ".current.stmts") {
						stmtsPos = x.Pos()
					}
					if i < len(x.Rhs) && strings.HasSuffix(exprString(x.Rhs[i]), ".current.flows") {
						flowsPos = x.Pos()
					}
				}
			}
			return true
		})
		c.Check(setLenArgOK && setLenPos.IsValid(), rule, "endBlockStmt/truncates-to-saved-base", fd.Pos(), "the operand stack must be truncated to the base saved when the block started")
		c.Check(restoreWhole, rule, "endBlockStmt/restores-whole-context", fd.Pos(), "the enclosing block context must be restored as a whole from *old")
		c.Check(setLenPos.IsValid() && restorePos.IsValid() && setLenPos < restorePos && stmtsPos.IsValid() && stmtsPos < restorePos && flowsPos.IsValid() && flowsPos < restorePos,
			rule, "endBlockStmt/reads-before-restore", fd.Pos(), "base, statements and flow flags of the ending block must be read before the context is overwritten")
	}
	// function context: fields saved by startFuncBody == fields restored by endFuncBody
	sfd, _ := needDecl(c, rule, "(*CodeBuilder).startFuncBody")
	efd, _ := needDecl(c, rule, "(*CodeBuilder).endFuncBody")
	if sfd != nil && efd != nil {
		saved, restored := map[string]bool{}, map[string]bool{}
		// selectors are resolved through type information: `old.f` is a field f selected on the saved-context
		// parameter/variable (type funcBodyCtx), `X.current.f` a field f promoted through CodeBuilder.current
		ctxField := func(e ast.Expr) (field string, onOld, onCurrent bool) {
			se, ok := unparen(e).(*ast.SelectorExpr)
			if !ok {
				return
			}
			fv, ok := info.Uses[se.Sel].(*types.Var)
			if !ok || !fv.IsField() {
				return
			}
			field = fv.Name()
			bt := info.TypeOf(se.X)
			if bt == nil {
				return
			}
			if namedIs(bt, fw.Mod, "funcBodyCtx") {
				if inner, ok := unparen(se.X).(*ast.SelectorExpr); ok && inner.Sel.Name == "current" {
					onCurrent = true
				} else {
					onOld = true
				}
			}
			return
		}
		firstWrite := map[string]token.Pos{} // first overwrite of current.f in startFuncBody
		savePos := map[string]token.Pos{}
		sameStmtSave := map[string]bool{}
		resetTo := map[string]ast.Expr{}
		inspectFunc(sfd, func(n ast.Node) bool {
			as, ok := n.(*ast.AssignStmt)
			if !ok || len(as.Lhs) != len(as.Rhs) {
				return true
			}
			for i := range as.Lhs {
				lf, lOld, lCur := ctxField(as.Lhs[i])
				rf, _, rCur := ctxField(as.Rhs[i])
				if lOld && rCur && lf == rf {
					if _, seen := savePos[lf]; !seen {
						savePos[lf] = as.Pos()
					}
					// a tuple assignment evaluates its right-hand side first: saving and overwriting in one
					// statement is safe
					for j := range as.Lhs {
						if f, _, cur := ctxField(as.Lhs[j]); cur && f == lf {
							sameStmtSave[lf] = true
						}
					}
				}
				if lCur {
					if _, seen := firstWrite[lf]; !seen {
						firstWrite[lf] = as.Pos()
						resetTo[lf] = as.Rhs[i]
					}
				}
			}
			return true
		})
		for f, sp := range savePos {
			fw_, written := firstWrite[f]
			if !written || sameStmtSave[f] || sp < fw_ {
				saved[f] = true
			}
		}
		// restored on EVERY normal path of endFuncBody (a restore under a condition leaves the closure's value
		// in place on the other paths)
		{
			epaths, etrunc := enumPaths(info, efd.Body)
			if etrunc {
				c.Undecided(rule, "endFuncBody/paths", efd.Pos(), "too many paths")
			}
			count := map[string]int{}
			nNormal := 0
			for _, pa := range epaths {
				if pa.Abnormal {
					continue
				}
				nNormal++
				seen := map[string]bool{}
				for _, nd := range pa.Nodes {
					as, ok := nd.(*ast.AssignStmt)
					if !ok || len(as.Lhs) != len(as.Rhs) {
						continue
					}
					for i := range as.Lhs {
						lf, _, lCur := ctxField(as.Lhs[i])
						rf, rOld, _ := ctxField(as.Rhs[i])
						if lCur && rOld && lf == rf {
							seen[lf] = true
						}
					}
				}
				for f := range seen {
					count[f]++
				}
			}
			for f, k := range count {
				if nNormal > 0 && k == nNormal {
					restored[f] = true
				}
			}
		}
		// a new function body starts with its own function object and with fresh per-function state:
		// labels and the tracked panic calls belong to one function (Go: labels are function-scoped)
		for _, f := range []string{"labels", "panicCalls"} {
			e := resetTo[f]
			isNil := false
			if e != nil {
				if tv, ok := info.Types[e]; ok && tv.IsNil() {
					isNil = true
				}
			}
			c.Check(isNil, rule, "startFuncBody/fresh-"+f, sfd.Pos(), "a function body must start with an empty %s table (per-function state): the enclosing function's %s would otherwise be visible inside the closure", f, f)
		}
		{
			e := resetTo["fn"]
			okFn := false
			if id, ok := e.(*ast.Ident); ok {
				if v, ok := info.Uses[id].(*types.Var); ok && namedIs(v.Type(), fw.Mod, "Func") {
					okFn = true
				}
			}
			c.Check(okFn, rule, "startFuncBody/current-fn-is-the-new-function", sfd.Pos(), "the current function must become the function whose body starts")
		}
		// every non-embedded field of funcBodyCtx must be saved and restored
		var want []string
		if tn, ok := p.Types.Scope().Lookup("funcBodyCtx").(*types.TypeName); ok {
			st := tn.Type().Underlying().(*types.Struct)
			for i := 0; i < st.NumFields(); i++ {
				if !st.Field(i).Embedded() {
					want = append(want, st.Field(i).Name())
				}
			}
		}
		for _, f := range want {
			c.Check(saved[f], rule, "startFuncBody/saves-"+f, sfd.Pos(), "function-context field %s is not saved when a function body starts", f)
			c.Check(restored[f], rule, "endFuncBody/restores-"+f, efd.Pos(), "function-context field %s is not restored when a function body ends (the enclosing function would see the closure's %s)", f, f)
		}
		c.Floor(rule, "function-context fields", len(want), 3)
		// and the embedded block context goes through start/endBlockStmt with &old.codeBlockCtx
		sb, eb := false, false
		inspectFunc(sfd, func(n ast.Node) bool {
			if call, ok := n.(*ast.CallExpr); ok && isFunc(callee(info, call), fw.Mod, "CodeBuilder.startBlockStmt") && fieldOfParam(info, sfd, call.Args[len(call.Args)-1], "codeBlockCtx") {
				sb = true
			}
			return true
		})
		inspectFunc(efd, func(n ast.Node) bool {
			if call, ok := n.(*ast.CallExpr); ok && isFunc(callee(info, call), fw.Mod, "CodeBuilder.endBlockStmt") && fieldOfParam(info, efd, call.Args[0], "codeBlockCtx") {
				eb = true
			}
			return true
		})
		c.Check(sb && eb, rule, "funcBody/block-context-paired", sfd.Pos(), "a function body must open and close its block context through the same embedded slot")
	}
	// vblock
	vs, _ := needDecl(c, rule, "(*CodeBuilder).startVBlockStmt")
	ve, _ := needDecl(c, rule, "(*CodeBuilder).endVBlockStmt")
	if vs != nil && ve != nil {
		okS, okE := false, false
		inspectFunc(vs, func(n ast.Node) bool {
			if as, ok := n.(*ast.AssignStmt); ok && len(as.Lhs) == 1 {
				if st, ok := unparen(as.Lhs[0]).(*ast.StarExpr); ok && isParamIdent(info, vs, st.X) {
					if lit := asLit(as.Rhs[0]); lit != nil {
						f := structFields(info, lit)
						okS = strings.HasSuffix(exprString(f["codeBlock"]), ".current.codeBlock") && strings.HasSuffix(exprString(f["scope"]), ".current.scope")
					}
				}
			}
			return true
		})
		inspectFunc(ve, func(n ast.Node) bool {
			if as, ok := n.(*ast.AssignStmt); ok && len(as.Lhs) == 2 && len(as.Rhs) == 2 {
				okE = strings.HasSuffix(exprString(as.Lhs[0]), ".current.codeBlock") && fieldOfParam(info, ve, as.Rhs[0], "codeBlock") &&
					strings.HasSuffix(exprString(as.Lhs[1]), ".current.scope") && fieldOfParam(info, ve, as.Rhs[1], "scope")
			}
			return true
		})
		c.Check(okS && okE, rule, "vblock/save-restore-inverse", vs.Pos(), "a virtual block must save and restore exactly the current block and scope")
	}
}

// R16.4: the stack primitives change the length by exactly their documented amount, unconditionally. Every
// balance argument above (a block truncates to its base, an operation removes what it peeked) reasons with
// these amounts. The new length is computed symbolically from the primitive's single store to the data
// slice: p.data[:H] has length H, append(X, v) length(X)+1, append(X, vs...) length(X)+len(vs); len(p.data)
// and a local bound to it are the old length L. Expected: Push L+1, Pop L-1, PopN(n) L-n,
// Ret(arity, results...) L-arity+len(results), SetLen(base) base. A primitive with a branch in its body has
// no single amount.
func r164(c *fw.Ctx) {
	const rule = "R16.4"
	type lin map[string]int // variable -> coefficient; "" -> constant
	add := func(a, b lin, sign int) lin {
		r := lin{}
		for k, v := range a {
			r[k] += v
		}
		for k, v := range b {
			r[k] += sign * v
		}
		for k, v := range r {
			if v == 0 {
				delete(r, k)
			}
		}
		return r
	}
	show := func(l lin) string {
		var ks []string
		for k := range l {
			ks = append(ks, k)
		}
		sort.Strings(ks)
		out := ""
		for _, k := range ks {
			out += sprintf("%+d", l[k])
			if k != "" {
				out += "*" + k
			}
		}
		if out == "" {
			out = "0"
		}
		return out
	}
	eq := func(a, b lin) bool { return show(a) == show(b) }
	expected := map[string]func(params []string) lin{
		"Push":   func(ps []string) lin { return lin{"L": 1, "": 1} },
		"Pop":    func(ps []string) lin { return lin{"L": 1, "": -1} },
		"PopN":   func(ps []string) lin { return lin{"L": 1, ps[0]: -1} },
		"Ret":    func(ps []string) lin { return lin{"L": 1, ps[0]: -1, "len(" + ps[1] + ")": 1} },
		"SetLen": func(ps []string) lin { return lin{ps[0]: 1} },
	}
	n := 0
	for _, name := range []string{"Push", "Pop", "PopN", "Ret", "SetLen"} {
		fd, p := needDecl(c, rule, "internal:(*Stack)."+name)
		if fd == nil {
			continue
		}
		info := p.TypesInfo
		n++
		var params []string
		for _, f := range fd.Type.Params.List {
			for _, nm := range f.Names {
				params = append(params, nm.Name)
			}
		}
		branch := false
		ast.Inspect(fd.Body, func(m ast.Node) bool {
			switch m.(type) {
			case *ast.IfStmt, *ast.SwitchStmt, *ast.TypeSwitchStmt, *ast.ForStmt, *ast.RangeStmt, *ast.SelectStmt, *ast.GoStmt, *ast.DeferStmt:
				branch = true
			}
			return true
		})
		if branch {
			c.Violate(rule, "Stack."+name+"/unconditional", fd.Pos(), "the stack primitive %s branches: it no longer changes the length by one documented amount on every call (callers rely on it: endBlockStmt re-extends the stack to the block's base after an inline closure consumed its arguments)", name)
			continue
		}
		isData := func(e ast.Expr) bool {
			se, ok := unparen(e).(*ast.SelectorExpr)
			if !ok {
				return false
			}
			fv, ok := info.Uses[se.Sel].(*types.Var)
			return ok && fv.IsField() && fv.Name() == "data"
		}
		locals := map[types.Object]ast.Expr{}
		var store ast.Expr
		nStores := 0
		for _, st := range fd.Body.List {
			as, ok := st.(*ast.AssignStmt)
			if !ok || len(as.Lhs) != 1 || len(as.Rhs) != 1 {
				continue
			}
			if isData(as.Lhs[0]) {
				store = as.Rhs[0]
				nStores++
			} else if id, ok := as.Lhs[0].(*ast.Ident); ok && as.Tok == token.DEFINE {
				locals[info.Defs[id]] = as.Rhs[0]
			}
		}
		if nStores != 1 {
			c.Undecided(rule, "Stack."+name+"/single-store", fd.Pos(), "expected one store to the data slice, found %d", nStores)
			continue
		}
		var evalInt func(e ast.Expr) (lin, bool)
		var length func(e ast.Expr) (lin, bool)
		evalInt = func(e ast.Expr) (lin, bool) {
			e = unparen(e)
			if v, ok := constInt(info, e); ok {
				return lin{"": int(v)}, true
			}
			switch x := e.(type) {
			case *ast.Ident:
				if def, ok := locals[info.Uses[x]]; ok {
					return evalInt(def)
				}
				return lin{x.Name: 1}, true
			case *ast.CallExpr:
				if id, ok := unparen(x.Fun).(*ast.Ident); ok && id.Name == "len" && len(x.Args) == 1 {
					if isData(x.Args[0]) {
						return lin{"L": 1}, true
					}
					if l, ok := length(x.Args[0]); ok {
						return l, true
					}
					return lin{"len(" + exprString(x.Args[0]) + ")": 1}, true
				}
			case *ast.BinaryExpr:
				a, ok1 := evalInt(x.X)
				b, ok2 := evalInt(x.Y)
				if ok1 && ok2 {
					switch x.Op {
					case token.ADD:
						return add(a, b, 1), true
					case token.SUB:
						return add(a, b, -1), true
					}
				}
			}
			return nil, false
		}
		length = func(e ast.Expr) (lin, bool) {
			e = unparen(e)
			switch x := e.(type) {
			case *ast.SelectorExpr:
				if isData(x) {
					return lin{"L": 1}, true
				}
			case *ast.SliceExpr:
				if isData(x.X) && x.Low == nil && x.High != nil && !x.Slice3 {
					return evalInt(x.High)
				}
			case *ast.CallExpr:
				if id, ok := unparen(x.Fun).(*ast.Ident); ok && id.Name == "append" && len(x.Args) == 2 {
					base, ok := length(x.Args[0])
					if !ok {
						return nil, false
					}
					if x.Ellipsis.IsValid() {
						return add(base, lin{"len(" + exprString(x.Args[1]) + ")": 1}, 1), true
					}
					return add(base, lin{"": 1}, 1), true
				}
			}
			return nil, false
		}
		got, ok := length(store)
		if !ok {
			c.Undecided(rule, "Stack."+name+"/length", store.Pos(), "cannot compute the new length of %s", exprString(store))
			continue
		}
		want := expected[name](params)
		c.Check(eq(got, want), rule, "Stack."+name+"/length-change", store.Pos(), "new length %s, documented %s (L = old length)", show(got), show(want))
	}
	c.Floor(rule, "stack primitives", n, 5)
}

// isParamIdent: e is an identifier that refers to a parameter of fd (whatever it is called).
func isParamIdent(info *types.Info, fd *ast.FuncDecl, e ast.Expr) bool {
	id, ok := unparen(e).(*ast.Ident)
	if !ok {
		return false
	}
	o := info.Uses[id]
	if o == nil {
		return false
	}
	for _, f := range fd.Type.Params.List {
		for _, nm := range f.Names {
			if info.Defs[nm] == o {
				return true
			}
		}
	}
	return false
}

// fieldOfParam: e is `P.field` or `&P.field` for a parameter P of fd.
func fieldOfParam(info *types.Info, fd *ast.FuncDecl, e ast.Expr, field string) bool {
	e = unparen(e)
	if u, ok := e.(*ast.UnaryExpr); ok && u.Op == token.AND {
		e = unparen(u.X)
	}
	se, ok := e.(*ast.SelectorExpr)
	return ok && se.Sel.Name == field && isParamIdent(info, fd, se.X)
}
