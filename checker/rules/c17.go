package rules

import (
	"go/ast"
	"go/token"
	"go/types"
	"strings"

	"golang.org/x/tools/go/packages"

	"gogenvet/fw"
)

func init() {
	register("C17", Prop{
		NeedSSA: false,
		Run:     runC17,
		Explanation: "R17.1 every single-result type assertion in the builder packages is classified by the provenance of its operand: (A) a library accessor with an invariant dynamic type ((*types.Func).Type() is a *types.Signature, the last parameter of a variadic signature is a slice, Instantiate of a signature yields a signature), (B) a value the builder itself stored (syntax lists it built, sync.Map/typeutil.Map values, its own tables), (C) derived from an operand's Type/Val or from Underlying()/getUnderlying() — user-influenced: class C must be guarded by a type test, otherwise a malformed program crashes the builder with a runtime.TypeAssertionError instead of an error report; " +
			"R17.2 the count handed to constant.Shift is bounded by a constant (otherwise `1 << (1<<40)` allocates without bound); " +
			"R17.3 optional configuration (big-number types, recorder, implicit-cast hook) is used only in identity comparisons or under a dominating non-nil test; in particular it is never stored into an element's type unguarded",
		NotDecided: "bounds checks in general, stack underflow from ill-formed operation sequences, time and memory bounds other than the shift count, nil dereferences other than through optional configuration",
	})
}

func runC17(c *fw.Ctx) {
	r171(c)
	r172(c)
	r173(c)
	r174(c)
}

// frozen classification of assertions the automatic classes do not cover: key -> (class, reason)
var assertTable = map[string][2]string{
	"(*CodeBuilder).methodSigOf/arg.Type.(*TypeType)":                                {"B", "only reached with flag == memberFlagMethodToFunc, which Member sets exactly when the operand's type is a *TypeType"},
	"(*CodeBuilder).methodSigOf/ret.Val.(*ast.SelectorExpr)":                         {"B", "ret was built by CodeBuilder.method with selector(...)"},
	"methodToFuncSig/fn.Val.(*ast.SelectorExpr)":                                     {"B", "the callee element of an overloaded method was built by CodeBuilder.method with selector(...)"},
	"matchFuncCall/mfn.Val.(*target.SelectorExpr)":                                   {"B", "the callee element of an overloaded method was built by CodeBuilder.method with selector(...)"},
	"newUnsafeAddExpr/toObjectExpr(pkg, unsafeRef(\"Sizeof\")).(*ast.SelectorExpr)":  {"B", "toObjectExpr yields a SelectorExpr for an object of another package (unsafe)"},
	"newUnsafeDataExpr/toObjectExpr(pkg, unsafeRef(\"Sizeof\")).(*ast.SelectorExpr)": {"B", "toObjectExpr yields a SelectorExpr for an object of another package (unsafe)"},
	"(*CodeBuilder).emitVar/p.current.scope.Lookup(name).(*types.Var)":               {"B", "the variable was declared by NewVar/NewVarStart two statements earlier"},
	"(*CodeBuilder).IncDec/fn.Type().(*TyInstruction)":                               {"B", "the builtin scope entry XGo_Inc/XGo_Dec is inserted by initBuiltinOps as an instruction (R2.1)"},
	"(*Package).lookupTypeUnitsVal/ounits.(*types.Const)":                            {"I", "XGou_<Type> of an imported extension package: import data, not a program under construction (a malformed extension package is outside the property's inputs)"},
	"DefaultConv/typ.(*types.Named)":                                                 {"I", "<Type>_Default alias of an imported extension package: import data"},
	"offsetof/typ.(*types.Struct)":                                                   {"A", "index path computed by types.LookupFieldOrMethod: every prefix of the path selects a struct"},
	"(*CodeBuilder).instantiate/typ.(*types.Signature)":                              {"B", "reached only when the indexed operand is a value (not a TypeType) whose type passed isGenericType: generic named/alias types occur only as TypeType operands, so a generic value's type is a signature"},
	"boundTypeParams/ret.(*types.Signature)":                                         {"A", "result of types.Instantiate / inferFunc on a signature, error tested first"},
	"checkInferArgs/typ.(*types.Slice)":                                              {"A", "type of the last parameter of a variadic signature (inside `if sig.Variadic()`)"},
	"init/universe.Lookup(\"byte\").Type().(*types.Basic)":                           {"A", "universe type"},
	"init/universe.Lookup(\"rune\").Type().(*types.Basic)":                           {"A", "universe type"},
}

func r171(c *fw.Ctx) {
	const rule = "R17.1"
	n, nC := 0, 0
	seen := map[string]int{}
	for _, fd := range c.Decls() {
		p := c.PkgOfDecl(fd)
		if fd.Body == nil || strings.HasPrefix(p.PkgPath, fw.Mod+"/internal/go/") {
			continue // the printer fork asserts on syntax trees it is handed: C12
		}
		info := p.TypesInfo
		fname := declName(c, fd)
		commaOk := map[*ast.TypeAssertExpr]bool{}
		ast.Inspect(fd.Body, func(m ast.Node) bool {
			switch x := m.(type) {
			case *ast.AssignStmt:
				if len(x.Lhs) == 2 && len(x.Rhs) == 1 {
					if ta, ok := unparen(x.Rhs[0]).(*ast.TypeAssertExpr); ok {
						commaOk[ta] = true
					}
				}
			case *ast.ValueSpec:
				if len(x.Names) == 2 && len(x.Values) == 1 {
					if ta, ok := unparen(x.Values[0]).(*ast.TypeAssertExpr); ok {
						commaOk[ta] = true
					}
				}
			}
			return true
		})
		ast.Inspect(fd.Body, func(m ast.Node) bool {
			ta, ok := m.(*ast.TypeAssertExpr)
			if !ok || ta.Type == nil || commaOk[ta] {
				return true
			}
			n++
			base := fname + "/" + exprString(ta)
			seen[base]++
			key := base
			if seen[base] > 1 {
				key = sprintf("%s#%d", base, seen[base])
			}
			var class, why string
			if t, ok := assertTable[base]; ok {
				class, why = t[0], t[1]
			} else {
				class, why = classifyAssert(c, p, fd, ta)
			}
			switch class {
			case "A", "B", "I":
				c.OK(rule, key, ta.Pos(), "class %s: %s", class, why)
			case "C":
				nC++
				if guardedAssert(info, fd, ta) {
					c.OK(rule, key, ta.Pos(), "class C, guarded by a preceding type test of the same value")
				} else {
					c.Violate(rule, key, ta.Pos(), "unguarded assertion on a value derived from an operand (%s): an ill-typed program makes the builder fail with a runtime.TypeAssertionError instead of reporting an error", why)
				}
			default:
				c.Undecided(rule, key, ta.Pos(), "assertion of unknown provenance (operand %s of static type %s): classify it", exprString(ta.X), info.TypeOf(ta.X))
			}
			return true
		})
	}
	c.Floor(rule, "single-result type assertions", n, 50)
	c.Units[rule+" class C (operand-derived)"] = nC
}

// classifyAssert implements the automatic classes.
func classifyAssert(c *fw.Ctx, p *packages.Package, fd *ast.FuncDecl, ta *ast.TypeAssertExpr) (string, string) {
	info := p.TypesInfo
	x := unparen(ta.X)
	xt := info.TypeOf(x)
	asserted := info.TypeOf(ta.Type)
	// static type of the operand: builder-built syntax, or an opaque container value
	if xt != nil {
		if n := namedOf(xt); n != nil && n.Obj().Pkg() != nil {
			switch n.Obj().Pkg().Path() + "." + n.Obj().Name() {
			case "go/ast.Spec", "go/ast.Decl", "go/ast.Stmt":
				return "B", "element of a declaration/statement list the builder itself built"
			}
		}
		if it, ok := xt.Underlying().(*types.Interface); ok && it.Empty() {
			return "B", "value stored by the builder in an untyped container (sync.Map, typeutil.Map, ast.Object.Data, its own tables)"
		}
	}
	// ast.Expr operands: Lhs of a statement the builder built
	if xt != nil && xt.String() == "go/ast.Expr" {
		if ix, ok := x.(*ast.IndexExpr); ok && strings.HasSuffix(exprString(ix.X), ".Lhs") {
			return "B", "left-hand side of an assignment statement the builder itself built"
		}
	}
	// X.Type() of a *types.Func (or wrapper) asserted to *types.Signature
	isSigAssert := asserted != nil && asserted.String() == "*go/types.Signature"
	funcTyped := func(e ast.Expr) bool {
		t := info.TypeOf(e)
		if t == nil {
			return false
		}
		s := t.String()
		return s == "*go/types.Func" || s == "*"+fw.Mod+".Func" || s == "*"+fw.Mod+".TemplateFunc"
	}
	var resolve func(e ast.Expr, depth int) (string, string)
	resolve = func(e ast.Expr, depth int) (string, string) {
		e = unparen(e)
		if depth > 4 {
			return "", ""
		}
		switch v := e.(type) {
		case *ast.CallExpr:
			fn, _ := callee(info, v).(*types.Func)
			if sel, ok := unparen(v.Fun).(*ast.SelectorExpr); ok && sel.Sel.Name == "Type" && len(v.Args) == 0 {
				if funcTyped(sel.X) && isSigAssert {
					return "A", "(*types.Func).Type() is always a *types.Signature"
				}
				if isSigAssert {
					// types.Object known to be a function by construction of the overload/template tables
					st := exprString(sel.X)
					if strings.HasSuffix(st, ".Func") || st == "o" || st == "m" || strings.HasSuffix(st, ".Fn") {
						return "B", "object taken from the builder's own overload/template/method tables, which hold functions"
					}
				}
				// parameter of a variadic signature
				if asserted != nil && asserted.String() == "*go/types.Slice" && variadicGuarded(info, fd, ta) {
					return "A", "the last parameter of a variadic signature is a slice"
				}
			}
			if fn != nil {
				switch fw.FuncName(fn) {
				case "(*CodeBuilder).getUnderlying", "getUnderlying":
					return "C", "underlying type of a named operand type"
				case "InferFunc", "inferFuncTargs":
					if isSigAssert {
						return "A", "instantiation of a signature yields a signature (error tested first)"
					}
				}
				if fn.Pkg() != nil && fn.Pkg().Path() == "go/types" {
					switch fn.Name() {
					case "Instantiate":
						if isSigAssert {
							return "A", "types.Instantiate of a signature yields a signature"
						}
					case "Underlying", "Unalias":
						return "C", "underlying/unaliased type of an operand-derived type"
					}
				}
			}
		case *ast.SelectorExpr:
			if v.Sel.Name == "Type" && isElemPtr(info.TypeOf(v.X)) {
				return "C", "the Type of an operand"
			}
			if v.Sel.Name == "Val" && isElemPtr(info.TypeOf(v.X)) {
				return "", "" // decided by the frozen table (shape invariants of elements the builder built)
			}
		case *ast.Ident:
			obj := info.Uses[v]
			if obj == nil {
				return "", ""
			}
			// follow the (single) definition in this function
			var def ast.Expr
			ndef := 0
			inspectFunc(fd, func(m ast.Node) bool {
				as, ok := m.(*ast.AssignStmt)
				if !ok {
					return true
				}
				for i, l := range as.Lhs {
					if lid, ok := l.(*ast.Ident); ok && (info.Defs[lid] == obj || info.Uses[lid] == obj) {
						ndef++
						if len(as.Lhs) == len(as.Rhs) {
							def = as.Rhs[i]
						} else if len(as.Rhs) == 1 {
							def = as.Rhs[0] // multi-value call: first result carries the type
						}
					}
				}
				return true
			})
			if def != nil && ndef >= 1 {
				if cl, why := resolve(def, depth+1); cl != "" {
					return cl, why
				}
			}
			// a parameter
			if _, isParam := obj.(*types.Var); isParam && obj.Parent() != nil && fd.Type.Params != nil {
				for _, f := range fd.Type.Params.List {
					for _, nm := range f.Names {
						if info.Defs[nm] == obj {
							// parameter `typ types.Type` of a helper: provenance is the callers'
							if isSigAssert && (fd.Name.Name == "methodCallSig" || fd.Name.Name == "methodSigOf") {
								return "B", "signature type of a method found by lookup (found.Type() of a *types.Func)"
							}
							if asserted != nil && asserted.String() == "*go/types.Slice" && variadicGuarded(info, fd, ta) {
								return "A", "the last parameter of a variadic signature is a slice"
							}
						}
					}
				}
			}
		}
		return "", ""
	}
	return resolve(x, 0)
}

// variadicGuarded: the assertion sits under an `if sig.Variadic()` test (or the function takes variadic as a fact).
func variadicGuarded(info *types.Info, fd *ast.FuncDecl, ta *ast.TypeAssertExpr) bool {
	ok := false
	inspectFunc(fd, func(m ast.Node) bool {
		if is, isIf := m.(*ast.IfStmt); isIf && is.Body.Pos() <= ta.Pos() && ta.End() <= is.Body.End() {
			if strings.Contains(exprString(is.Cond), "ariadic") {
				ok = true
			}
		}
		return true
	})
	return ok
}

// guardedAssert: a comma-ok assertion or type-switch case of the same operand text and type encloses/precedes it.
func guardedAssert(info *types.Info, fd *ast.FuncDecl, ta *ast.TypeAssertExpr) bool {
	want := exprString(ta.X)
	wantT := exprString(ta.Type)
	ok := false
	inspectFunc(fd, func(m ast.Node) bool {
		if is, isIf := m.(*ast.IfStmt); isIf && is.Init != nil && is.Body.Pos() <= ta.Pos() && ta.End() <= is.Body.End() {
			if as, isA := is.Init.(*ast.AssignStmt); isA && len(as.Lhs) == 2 && len(as.Rhs) == 1 {
				if g, isTA := unparen(as.Rhs[0]).(*ast.TypeAssertExpr); isTA && exprString(g.X) == want && g.Type != nil && exprString(g.Type) == wantT {
					if exprString(is.Cond) == exprString(as.Lhs[1]) {
						ok = true
					}
				}
			}
		}
		return true
	})
	return ok
}

// ---------------------------------------------------------------------------

func r172(c *fw.Ctx) {
	const rule = "R17.2"
	n := 0
	for _, fd := range c.Decls() {
		p := c.PkgOfDecl(fd)
		info := p.TypesInfo
		fname := declName(c, fd)
		inspectFunc(fd, func(m ast.Node) bool {
			call, ok := m.(*ast.CallExpr)
			if !ok || !isFunc(callee(info, call), "go/constant", "Shift") || len(call.Args) != 3 {
				return true
			}
			n++
			// the count: uint(s) with s a local
			cnt := unparen(call.Args[2])
			if cv, ok := cnt.(*ast.CallExpr); ok && len(cv.Args) == 1 {
				cnt = unparen(cv.Args[0])
			}
			id, _ := cnt.(*ast.Ident)
			bounded := false
			if id != nil {
				obj := info.Uses[id]
				inspectFunc(fd, func(k ast.Node) bool {
					be, ok := k.(*ast.BinaryExpr)
					if !ok || k.Pos() > call.Pos() {
						return true
					}
					lhs, lok := unparen(be.X).(*ast.Ident)
					rhs, rok := unparen(be.Y).(*ast.Ident)
					switch be.Op {
					case token.LSS, token.LEQ:
						if lok && info.Uses[lhs] == obj && constOf(info, be.Y) != nil {
							bounded = true
						}
					case token.GTR, token.GEQ:
						if lok && info.Uses[lhs] == obj && constOf(info, be.Y) != nil {
							bounded = true
						}
						if rok && info.Uses[rhs] == obj && constOf(info, be.X) != nil {
							bounded = true
						}
					}
					return true
				})
			}
			c.Check(bounded, rule, fname+"/constant.Shift/count-bounded", call.Pos(),
				"the shift count is only tested for fitting an int64: a count such as 1<<40 makes constant.Shift allocate a result of that many bits (process-fatal out of memory that recover() cannot catch); go/types bounds the count")
			return true
		})
	}
	c.Floor(rule, "constant.Shift calls", n, 1)
}

// ---------------------------------------------------------------------------

func r173(c *fw.Ctx) {
	const rule = "R17.3"
	p := c.Pkg("")
	info := p.TypesInfo
	optional := map[types.Object]string{}
	addFields := func(typeName string, fields ...string) {
		tn, _ := p.Types.Scope().Lookup(typeName).(*types.TypeName)
		if tn == nil {
			c.Undecided(rule, "anchor/"+typeName, token.NoPos, "type %s not found", typeName)
			return
		}
		st := tn.Type().Underlying().(*types.Struct)
		for _, f := range fields {
			found := false
			for i := 0; i < st.NumFields(); i++ {
				if st.Field(i).Name() == f {
					optional[st.Field(i)] = typeName + "." + f
					found = true
				}
			}
			if !found {
				c.Undecided(rule, "anchor/"+typeName+"."+f, token.NoPos, "optional field not found")
			}
		}
	}
	addFields("Package", "utBigInt", "utBigRat", "utBigFlt", "implicitCast")
	addFields("CodeBuilder", "rec")
	n := 0
	seen := map[string]int{}
	for _, fd := range c.Decls() {
		if c.PkgOfDecl(fd) != p || fd.Body == nil {
			continue
		}
		fname := declName(c, fd)
		// ancestors for each use
		var stack []ast.Node
		ast.Inspect(fd.Body, func(m ast.Node) bool {
			if m == nil {
				stack = stack[:len(stack)-1]
				return true
			}
			stack = append(stack, m)
			sel, ok := m.(*ast.SelectorExpr)
			if !ok {
				return true
			}
			what, isOpt := optional[info.Uses[sel.Sel]]
			if !isOpt {
				return true
			}
			n++
			// context
			parent := stack[len(stack)-2]
			use := ""
			switch pn := parent.(type) {
			case *ast.BinaryExpr:
				if pn.Op == token.EQL || pn.Op == token.NEQ {
					use = "compare"
				}
			case *ast.CaseClause:
				use = "compare"
			case *ast.AssignStmt:
				for _, l := range pn.Lhs {
					if l == ast.Expr(sel) {
						use = "init" // pkg.utBigInt = conf.UntypedBigInt
					}
				}
				if use == "" {
					use = "store"
				}
			case *ast.CallExpr:
				if pn.Fun == ast.Expr(sel) {
					use = "call"
				} else {
					use = "argument"
				}
			case *ast.SelectorExpr:
				use = "deref" // p.rec.Member(...)
			case *ast.SwitchStmt:
				use = "compare"
			}
			if use == "compare" || use == "init" {
				return true
			}
			// dominating non-nil test of the same field in an enclosing if
			guarded := false
			for _, anc := range stack {
				if is, ok := anc.(*ast.IfStmt); ok && is.Body.Pos() <= sel.Pos() && sel.End() <= is.Body.End() {
					if strings.Contains(exprString(is.Cond), exprString(sel)+" != nil") {
						guarded = true
					}
				}
			}
			// `return pkg.implicitCast(...)` directly after `if pkg.implicitCast != nil {`: covered above.
			base := fname + "/" + what + "/" + use
			seen[base]++
			key := base
			if seen[base] > 1 {
				key = sprintf("%s#%d", base, seen[base])
			}
			c.Check(guarded, rule, key, sel.Pos(), "optional configuration %s is used (%s) without a dominating non-nil test: with the default configuration it is nil (typed nil stored into an element's type, or nil call/dereference) and a later operation fails with a nil dereference", what, use)
			return true
		})
	}
	c.Floor(rule, "uses of optional configuration", n, 30)
	// the optional `pv *Element` parameter of the assignability family: dereferenced only under pv != nil
	for _, fnName := range []string{"assignable", "assignableTo", "AssignableConv", "DefaultConv", "getElemTypeIf"} {
		fd, pp := funcDecl(c, fnName)
		if fd == nil {
			continue
		}
		pinfo := pp.TypesInfo
		var pv types.Object
		for _, f := range fd.Type.Params.List {
			for _, nm := range f.Names {
				if isElemPtr(pinfo.TypeOf(f.Type)) && (nm.Name == "pv" || nm.Name == "parg") {
					pv = pinfo.Defs[nm]
				}
			}
		}
		if pv == nil {
			continue
		}
		k := 0
		var stack []ast.Node
		ast.Inspect(fd.Body, func(m ast.Node) bool {
			if m == nil {
				stack = stack[:len(stack)-1]
				return true
			}
			stack = append(stack, m)
			sel, ok := m.(*ast.SelectorExpr)
			if !ok {
				return true
			}
			id, ok := unparen(sel.X).(*ast.Ident)
			if !ok || pinfo.Uses[id] != pv {
				return true
			}
			guarded := false
			for _, anc := range stack {
				switch a := anc.(type) {
				case *ast.IfStmt:
					cond := exprString(a.Cond)
					if a.Body.Pos() <= sel.Pos() && sel.End() <= a.Body.End() && strings.Contains(cond, id.Name+" != nil") {
						guarded = true
					}
					// inside the condition itself, after `pv != nil &&`
					if a.Cond.Pos() <= sel.Pos() && sel.End() <= a.Cond.End() {
						if i := strings.Index(cond, id.Name+" != nil"); i >= 0 && i < strings.Index(cond, exprString(sel)) {
							guarded = true
						}
					}
				}
			}
			// earlier `if pv == nil { return }`
			for _, st := range fd.Body.List {
				if is, ok := st.(*ast.IfStmt); ok && is.End() < sel.Pos() && exprString(is.Cond) == id.Name+" == nil" && endsInReturn(is.Body) {
					guarded = true
				}
			}
			k++
			c.Check(guarded, rule, sprintf("%s/%s.%s#%d", fnName, id.Name, sel.Sel.Name, k), sel.Pos(),
				"%s dereferences its optional operand parameter %s without a non-nil test; AssignableTo passes nil", fnName, id.Name)
			return true
		})
	}
}

// R17.4: a recursive search that is cut off by a set of visited nodes terminates in time linear in the
// graph only if the set grows monotonically. If entries are removed when the recursion unwinds, the set
// degenerates into "nodes on the current path" and a chain of diamonds (T_i embeds A_i+1 and B_i+1, both
// embed T_i+1) is explored 2^depth times. In every function of the builder that receives a visited set
// (a parameter of type map[K]struct{}), nothing is deleted from it and it is only replaced when it is nil.
func r174(c *fw.Ctx) {
	const rule = "R17.4"
	p := c.Pkg("")
	info := p.TypesInfo
	n := 0
	for _, fd := range c.Decls() {
		if c.PkgOfDecl(fd) != p || fd.Body == nil {
			continue
		}
		var sets []types.Object
		for _, f := range fd.Type.Params.List {
			for _, nm := range f.Names {
				o := info.Defs[nm]
				if o == nil {
					continue
				}
				if m, ok := o.Type().Underlying().(*types.Map); ok {
					if st, ok := m.Elem().Underlying().(*types.Struct); ok && st.NumFields() == 0 {
						sets = append(sets, o)
					}
				}
			}
		}
		if len(sets) == 0 {
			continue
		}
		fname := declName(c, fd)
		for _, set := range sets {
			n++
			bad := ""
			var badPos token.Pos
			ast.Inspect(fd.Body, func(m ast.Node) bool {
				switch x := m.(type) {
				case *ast.CallExpr:
					if id, ok := unparen(x.Fun).(*ast.Ident); ok && id.Name == "delete" && len(x.Args) == 2 {
						if _, isB := info.Uses[id].(*types.Builtin); isB {
							if a, ok := unparen(x.Args[0]).(*ast.Ident); ok && info.Uses[a] == set {
								bad, badPos = "an entry is deleted from it", x.Pos()
							}
						}
					}
					if id, ok := unparen(x.Fun).(*ast.Ident); ok && id.Name == "clear" && len(x.Args) == 1 {
						if a, ok := unparen(x.Args[0]).(*ast.Ident); ok && info.Uses[a] == set {
							bad, badPos = "it is cleared", x.Pos()
						}
					}
				case *ast.AssignStmt:
					for _, l := range x.Lhs {
						if a, ok := unparen(l).(*ast.Ident); ok && info.Uses[a] == set {
							// allowed: inside `if set == nil { set = make(...) }`
							guarded := false
							ast.Inspect(fd.Body, func(k ast.Node) bool {
								if is, ok := k.(*ast.IfStmt); ok && is.Body.Pos() <= x.Pos() && x.End() <= is.Body.End() {
									if be, ok := unparen(is.Cond).(*ast.BinaryExpr); ok && be.Op == token.EQL {
										if b, ok := unparen(be.X).(*ast.Ident); ok && info.Uses[b] == set {
											if tv, ok := info.Types[be.Y]; ok && tv.IsNil() {
												guarded = true
											}
										}
									}
								}
								return true
							})
							if !guarded {
								bad, badPos = "it is replaced while the search is running", x.Pos()
							}
						}
					}
				}
				return true
			})
			if badPos == token.NoPos {
				badPos = fd.Pos()
			}
			c.Check(bad == "", rule, fname+"/visited-set-only-grows("+set.Name()+")", badPos,
				"the visited set %s must only grow during the search; here %s: the search revisits a struct once per embedding path (exponential in the depth of diamond-shaped embedding)", set.Name(), bad)
		}
	}
	c.Floor(rule, "functions receiving a visited set", n, 2)
}
