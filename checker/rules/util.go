package rules

import (
	"fmt"
	"go/ast"
	"go/constant"
	"go/token"
	"go/types"
	"sort"
	"strings"

	"golang.org/x/tools/go/packages"
	"golang.org/x/tools/go/types/typeutil"

	"gogenvet/fw"
)

// callee resolves the static callee of a call through type information.
func callee(info *types.Info, call *ast.CallExpr) types.Object {
	return typeutil.Callee(info, call)
}

// isFunc reports whether obj is the package-level function or method pkgPath.name
// (name may be "T.M" for methods, receiver pointer-ness ignored).
func isFunc(obj types.Object, pkgPath, name string) bool {
	fn, ok := obj.(*types.Func)
	if !ok || fn == nil || fn.Pkg() == nil || fn.Pkg().Path() != pkgPath {
		return false
	}
	return shortName(fn) == name
}

// shortName: "M" for functions, "T.M" for methods.
func shortName(fn *types.Func) string {
	sig, _ := fn.Type().(*types.Signature)
	if sig != nil && sig.Recv() != nil {
		t := sig.Recv().Type()
		if p, ok := t.(*types.Pointer); ok {
			t = p.Elem()
		}
		switch tt := types.Unalias(t).(type) {
		case *types.Named:
			return tt.Obj().Name() + "." + fn.Name()
		}
		return t.String() + "." + fn.Name()
	}
	return fn.Name()
}

func constOf(info *types.Info, e ast.Expr) constant.Value {
	if tv, ok := info.Types[e]; ok {
		return tv.Value
	}
	return nil
}

func constInt(info *types.Info, e ast.Expr) (int64, bool) {
	v := constOf(info, e)
	if v == nil || v.Kind() != constant.Int {
		return 0, false
	}
	return constant.Int64Val(v)
}

func unparen(e ast.Expr) ast.Expr {
	for {
		p, ok := e.(*ast.ParenExpr)
		if !ok {
			return e
		}
		e = p.X
	}
}

// pkgVarInit returns the initialiser expression of a package-level variable.
func pkgVarInit(p *packages.Package, name string) (ast.Expr, *types.Var) {
	obj, _ := p.Types.Scope().Lookup(name).(*types.Var)
	if obj == nil {
		return nil, nil
	}
	for _, f := range p.Syntax {
		for _, d := range f.Decls {
			gd, ok := d.(*ast.GenDecl)
			if !ok || gd.Tok != token.VAR {
				continue
			}
			for _, s := range gd.Specs {
				vs := s.(*ast.ValueSpec)
				for i, n := range vs.Names {
					if p.TypesInfo.Defs[n] == obj {
						if len(vs.Values) == len(vs.Names) {
							return vs.Values[i], obj
						}
						return nil, obj
					}
				}
			}
		}
	}
	return nil, obj
}

// usesOf returns every identifier in the analysed packages that refers to obj.
func usesOf(c *fw.Ctx, obj types.Object) []*ast.Ident {
	var r []*ast.Ident
	for _, p := range c.AnalysedPkgs() {
		for id, o := range p.TypesInfo.Uses {
			if o == obj {
				r = append(r, id)
			}
		}
	}
	sort.Slice(r, func(i, j int) bool { return r[i].Pos() < r[j].Pos() })
	return r
}

// enclosingFunc returns the FuncDecl of the analysed packages that contains pos.
func enclosingFunc(c *fw.Ctx, pos token.Pos) *ast.FuncDecl {
	for _, fd := range c.Decls() {
		if fd.Pos() <= pos && pos < fd.End() {
			return fd
		}
	}
	return nil
}

func declName(c *fw.Ctx, fd *ast.FuncDecl) string {
	if fd == nil {
		return "<package-level>"
	}
	p := c.PkgOfDecl(fd)
	if fn, ok := p.TypesInfo.Defs[fd.Name].(*types.Func); ok {
		return fw.FuncName(fn)
	}
	return fd.Name.Name
}

// funcDecl finds a declaration by fw.FuncName syntax; nil when absent.
func funcDecl(c *fw.Ctx, name string) (*ast.FuncDecl, *packages.Package) {
	fn := c.LookupFunc(name)
	if fn == nil {
		return nil, nil
	}
	fd := c.DeclOf(fn)
	return fd, c.PkgOfDecl(fd)
}

// needDecl is funcDecl that records an undecided obligation when the anchor is missing.
func needDecl(c *fw.Ctx, rule, name string) (*ast.FuncDecl, *packages.Package) {
	fd, p := funcDecl(c, name)
	if fd == nil {
		c.Undecided(rule, "anchor/"+name, token.NoPos, "anchor function %s not found in the analysed packages", name)
	}
	return fd, p
}

func exprString(e ast.Expr) string {
	return types.ExprString(e)
}

// isSelectorOn reports e == X.sel and returns X.
func isSelector(e ast.Expr, sel string) (ast.Expr, bool) {
	s, ok := unparen(e).(*ast.SelectorExpr)
	if !ok || s.Sel.Name != sel {
		return nil, false
	}
	return s.X, true
}

func isElemPtr(t types.Type) bool {
	p, ok := types.Unalias(t).(*types.Pointer)
	if !ok {
		return false
	}
	n, ok := types.Unalias(p.Elem()).(*types.Named)
	return ok && n.Obj().Name() == "Elem" && n.Obj().Pkg() != nil && n.Obj().Pkg().Path() == fw.Mod+"/internal"
}

func namedIs(t types.Type, pkgPath, name string) bool {
	t = types.Unalias(t)
	if p, ok := t.(*types.Pointer); ok {
		t = types.Unalias(p.Elem())
	}
	n, ok := t.(*types.Named)
	return ok && n.Obj().Name() == name && n.Obj().Pkg() != nil && n.Obj().Pkg().Path() == pkgPath
}

func join(ss []string) string { return strings.Join(ss, ",") }

func sortedKeys[V any](m map[string]V) []string {
	var r []string
	for k := range m {
		r = append(r, k)
	}
	sort.Strings(r)
	return r
}

func sprintf(f string, a ...any) string { return fmt.Sprintf(f, a...) }

// inspectFunc walks a function body including nested function literals.
func inspectFunc(fd *ast.FuncDecl, f func(n ast.Node) bool) {
	if fd.Body != nil {
		ast.Inspect(fd.Body, f)
	}
}
