package rules

import (
	"go/ast"
	"go/token"
	"go/types"
	"strings"

	"golang.org/x/tools/go/packages"

	"gogenvet/fw"
)

func init() {
	register("C10", Prop{
		NeedSSA: false,
		Run:     runC10,
		Explanation: "R10.1 the terminating-statement analysis (isTerminating, isTerminatingList, isTerminatingSwitch, hasBreak, hasBreakList, and the parenthesis stripper) is compared, as total functions over the closed set of ast.Stmt implementers, with go/types/return.go of the GOROOT in use: per statement kind the verdicts are equal as truth tables over their atoms, loops by header and body signature; " +
			"R10.2 panic calls are tracked by object (scope lookup yielding *types.Builtin dominates the insertion; the predicate consults only that set); " +
			"R10.3 the verdict is applied: Func.End builds the checker from the body's own panic set before the context is restored, reports `missing return` exactly when results exist and the body is not terminating, and endFuncBody checks labels; " +
			"R10.4 label bookkeeping: every labelled branch/goto marks the label used, duplicate definition is tested before insertion and reported, unused labels are exactly those with used == false",
		NotDecided: "that the emitted tree equals the tree Go will parse (C12); other label errors (jump over declarations, invalid break target)",
	})
}

func runC10(c *fw.Ctx) {
	r101(c)
	r102(c)
	r103(c)
	r104(c)
	r105(c)
}

func findStdFunc(p *packages.Package, recv, name string) *ast.FuncDecl {
	for _, f := range p.Syntax {
		for _, d := range f.Decls {
			fd, ok := d.(*ast.FuncDecl)
			if !ok || fd.Name.Name != name {
				continue
			}
			if recv == "" && fd.Recv == nil {
				return fd
			}
			if recv != "" && fd.Recv != nil && strings.Contains(exprString(fd.Recv.List[0].Type), recv) {
				return fd
			}
		}
	}
	return nil
}

// stmtImplementers lists the concrete go/ast types implementing ast.Stmt ("*ast.X").
func stmtImplementers(c *fw.Ctx) []string {
	ap := c.ByPath["go/ast"]
	if ap == nil {
		return nil
	}
	iface, _ := ap.Types.Scope().Lookup("Stmt").Type().Underlying().(*types.Interface)
	var r []string
	for _, n := range ap.Types.Scope().Names() {
		tn, ok := ap.Types.Scope().Lookup(n).(*types.TypeName)
		if !ok || tn.IsAlias() {
			continue
		}
		if _, isStruct := tn.Type().Underlying().(*types.Struct); !isStruct {
			continue
		}
		if types.Implements(types.NewPointer(tn.Type()), iface) {
			r = append(r, "*ast."+n)
		}
	}
	return r
}

func r101(c *fw.Ctx) {
	const rule = "R10.1"
	rp := c.Pkg("")
	tp := c.ByPath["go/types"]
	ap := c.ByPath["go/ast"]
	if tp == nil || len(tp.Syntax) == 0 || ap == nil {
		c.Undecided(rule, "anchor/go-types-source", token.NoPos, "go/types or go/ast source of the GOROOT in use was not loaded")
		return
	}
	// stated renaming
	callees := map[types.Object]string{}
	if o := ap.Types.Scope().Lookup("Unparen"); o != nil {
		callees[o] = "unparen"
	}
	if o := rp.Types.Scope().Lookup("unparen"); o != nil {
		callees[o] = "unparen"
	}
	for _, n := range []string{"hasBreak", "hasBreakList"} {
		if o := tp.Types.Scope().Lookup(n); o != nil {
			callees[o] = n
		}
		if o := rp.Types.Scope().Lookup(n); o != nil {
			callees[o] = n
		}
	}
	rename := map[string]string{"isPanic": "panicCalls"}

	mkEnv := func(p *packages.Package) *e6env {
		return &e6env{info: p.TypesInfo, subst: map[types.Object]string{}, rename: rename, callees: callees}
	}
	// inlining of the repo's isPanicCall(x) helper
	var panicCallDecl *ast.FuncDecl
	if fn := c.LookupFunc("(*termChecker).isPanicCall"); fn != nil {
		panicCallDecl = c.DeclOf(fn)
	}
	inlineRepo := func(call *ast.CallExpr, e *e6env) (*bexp, bool) {
		if panicCallDecl == nil {
			return nil, false
		}
		fn, ok := callee(e.info, call).(*types.Func)
		if !ok || c.DeclOf(fn) != panicCallDecl || len(call.Args) != 1 {
			return nil, false
		}
		env := e.clone()
		env.state = stateVars(e.info, panicCallDecl.Body)
		// receiver and parameter
		if sel, ok := unparen(call.Fun).(*ast.SelectorExpr); ok {
			for _, f := range panicCallDecl.Recv.List {
				for _, n := range f.Names {
					env.subst[e.info.Defs[n]] = e.canon(sel.X)
				}
			}
		}
		env.subst[e.info.Defs[panicCallDecl.Type.Params.List[0].Names[0]]] = e.canon(call.Args[0])
		s := env.evalStmts(panicCallDecl.Body.List, &sym{kind: sPanic})
		if env.err != "" {
			e.fail("inlining isPanicCall: %s", env.err)
			return nil, false
		}
		b, ok := symToBool(s)
		return b, ok
	}

	type pair struct{ name, repo, ref, refRecv string }
	pairs := []pair{
		{"isTerminating", "(*termChecker).isTerminating", "isTerminating", "Checker"},
		{"isTerminatingList", "(*termChecker).isTerminatingList", "isTerminatingList", "Checker"},
		{"isTerminatingSwitch", "(*termChecker).isTerminatingSwitch", "isTerminatingSwitch", "Checker"},
		{"hasBreak", "hasBreak", "hasBreak", ""},
		{"hasBreakList", "hasBreakList", "hasBreakList", ""},
	}
	stmts := stmtImplementers(c)
	c.Floor(rule, "ast.Stmt implementers", len(stmts), 20)
	compared := 0
	for _, pr := range pairs {
		rfd, _ := needDecl(c, rule, pr.repo)
		sfd := findStdFunc(tp, pr.refRecv, pr.ref)
		if sfd == nil {
			c.Undecided(rule, "anchor/go-types/"+pr.ref, token.NoPos, "reference function %s not found in go/types", pr.ref)
		}
		if rfd == nil || sfd == nil {
			continue
		}
		re, se := mkEnv(rp), mkEnv(tp)
		re.inline = inlineRepo
		re.state, se.state = stateVars(rp.TypesInfo, rfd.Body), stateVars(tp.TypesInfo, sfd.Body)
		re.bindParams(rfd)
		se.bindParams(sfd)
		if len(rfd.Type.Params.List) == 0 || paramCount(rfd) != paramCount(sfd) {
			c.Violate(rule, pr.name+"/signature", rfd.Pos(), "parameter count differs from go/types' %s", pr.ref)
			continue
		}
		hasSwitch := func(fd *ast.FuncDecl) bool {
			for _, st := range fd.Body.List {
				if _, ok := st.(*ast.TypeSwitchStmt); ok {
					return true
				}
			}
			return false
		}
		if hasSwitch(sfd) {
			rt, rdef, ok1 := re.typeSwitchTable(rfd)
			st, sdef, ok2 := se.typeSwitchTable(sfd)
			if !ok1 || !ok2 || re.err != "" || se.err != "" {
				c.Undecided(rule, pr.name+"/shape", rfd.Pos(), "cannot normalise: repo: %s; go/types: %s", re.err, se.err)
				continue
			}
			for _, T := range stmts {
				want, ok := st[T]
				if !ok {
					want = sdef
				}
				if want.kind == sPanic {
					continue // reference says unreachable: not compared
				}
				got, ok := rt[T]
				if !ok {
					got = rdef
				}
				compared++
				gs, ws := got.signature(), want.signature()
				c.Check(gs == ws, rule, pr.name+"/"+T, rfd.Pos(),
					"verdict for %s differs from go/types/return.go:\n    repo:     %s\n    go/types: %s", T, gs, ws)
			}
		} else {
			rs := re.evalStmts(rfd.Body.List, &sym{kind: sPanic})
			ss := se.evalStmts(sfd.Body.List, &sym{kind: sPanic})
			if re.err != "" || se.err != "" {
				c.Undecided(rule, pr.name+"/shape", rfd.Pos(), "cannot normalise: repo: %s; go/types: %s", re.err, se.err)
				continue
			}
			compared++
			gs, ws := rs.signature(), ss.signature()
			c.Check(gs == ws, rule, pr.name+"/body", rfd.Pos(), "function differs from go/types/return.go:\n    repo:     %s\n    go/types: %s", gs, ws)
		}
	}
	// unparen vs ast.Unparen
	if rfd, _ := needDecl(c, rule, "unparen"); rfd != nil {
		if sfd := findStdFunc(ap, "", "Unparen"); sfd != nil {
			re, se := mkEnv(rp), mkEnv(ap)
			re.state, se.state = stateVars(rp.TypesInfo, rfd.Body), stateVars(ap.TypesInfo, sfd.Body)
			re.bindParams(rfd)
			se.bindParams(sfd)
			rs := re.evalLoopFn(rfd)
			ss := se.evalLoopFn(sfd)
			if re.err != "" || se.err != "" {
				c.Undecided(rule, "unparen/shape", rfd.Pos(), "cannot normalise: repo: %s; go/ast: %s", re.err, se.err)
			} else {
				compared++
				c.Check(rs == ss, rule, "unparen/body", rfd.Pos(), "parenthesis stripper differs from go/ast.Unparen:\n    repo:   %s\n    go/ast: %s", rs, ss)
			}
		} else {
			c.Undecided(rule, "anchor/go-ast/Unparen", token.NoPos, "go/ast.Unparen not found")
		}
	}
	c.Floor(rule, "compared verdicts", compared, 40)
}

func paramCount(fd *ast.FuncDecl) int {
	n := 0
	for _, f := range fd.Type.Params.List {
		n += len(f.Names)
	}
	return n
}

// symToBool converts a loop-free sym into a boolean tree.
func symToBool(s *sym) (*bexp, bool) {
	switch s.kind {
	case sRet:
		return s.b, true
	case sIte:
		a, ok1 := symToBool(s.a)
		b, ok2 := symToBool(s.c)
		if !ok1 || !ok2 {
			return nil, false
		}
		return &bexp{kind: bOr, xs: []*bexp{
			{kind: bAnd, xs: []*bexp{s.b, a}},
			{kind: bAnd, xs: []*bexp{{kind: bNot, xs: []*bexp{s.b}}, b}},
		}}, true
	}
	return nil, false
}

// evalLoopFn canonicalises `for { v, ok := x.(T); if !ok { return x }; x = v.X }` style
// functions (non-boolean result): statement-by-statement canonical text.
func (e *e6env) evalLoopFn(fd *ast.FuncDecl) string {
	var sb strings.Builder
	var walk func(list []ast.Stmt)
	walk = func(list []ast.Stmt) {
		for _, st := range list {
			switch s := st.(type) {
			case *ast.ForStmt:
				if s.Init != nil || s.Cond != nil || s.Post != nil {
					e.fail("loop header not understood")
				}
				sb.WriteString("loop{")
				walk(s.Body.List)
				sb.WriteString("}")
			case *ast.AssignStmt:
				// comma-ok assertion defines substitutions; plain assignment to the parameter is an effect
				if len(s.Lhs) == 2 {
					e.assign(s)
					continue
				}
				sb.WriteString(e.canon(s.Lhs[0]) + "=" + e.canon(s.Rhs[0]) + ";")
			case *ast.IfStmt:
				if s.Init != nil || s.Else != nil {
					e.fail("if not understood")
				}
				b := e.boolOf(s.Cond)
				t := &sym{kind: sRet, b: b}
				sb.WriteString("if(" + t.signature() + "){")
				walk(s.Body.List)
				sb.WriteString("}")
			case *ast.ReturnStmt:
				sb.WriteString("return " + e.canon(s.Results[0]) + ";")
			default:
				e.fail("statement %T not understood", st)
			}
		}
	}
	walk(fd.Body.List)
	return sb.String()
}

// ---------------------------------------------------------------------------
// R10.2 panic tracking is by object, not by name.

func r102(c *fw.Ctx) {
	const rule = "R10.2"
	p := c.Pkg("")
	info := p.TypesInfo
	// every write into a map named panicCalls (field of funcBodyCtx)
	var field *types.Var
	if tn, ok := p.Types.Scope().Lookup("funcBodyCtx").(*types.TypeName); ok {
		if st, ok := tn.Type().Underlying().(*types.Struct); ok {
			for i := 0; i < st.NumFields(); i++ {
				if st.Field(i).Name() == "panicCalls" {
					field = st.Field(i)
				}
			}
		}
	}
	if field == nil {
		c.Undecided(rule, "anchor/funcBodyCtx.panicCalls", token.NoPos, "panic-call set not found")
		return
	}
	inserts := 0
	for _, fd := range c.Decls() {
		if c.PkgOfDecl(fd) != p {
			continue
		}
		fname := declName(c, fd)
		// path of enclosing nodes to each insertion
		var stack []ast.Node
		ast.Inspect(fd, func(n ast.Node) bool {
			if n == nil {
				stack = stack[:len(stack)-1]
				return true
			}
			stack = append(stack, n)
			as, ok := n.(*ast.AssignStmt)
			if !ok || len(as.Lhs) != 1 {
				return true
			}
			ix, ok := as.Lhs[0].(*ast.IndexExpr)
			if !ok {
				return true
			}
			sel, ok := unparen(ix.X).(*ast.SelectorExpr)
			if !ok || info.Uses[sel.Sel] != field {
				return true
			}
			inserts++
			key := fname + "/insert-panicCalls"
			// enclosing if-conditions (innermost last)
			var lookupObj, builtinAssert, nameTest bool
			for _, anc := range stack {
				is, ok := anc.(*ast.IfStmt)
				if !ok {
					continue
				}
				text := ""
				if is.Init != nil {
					if ia, ok := is.Init.(*ast.AssignStmt); ok {
						for _, r := range ia.Rhs {
							text += exprString(r) + ";"
							if call, ok := unparen(r).(*ast.CallExpr); ok {
								if fn, ok := callee(info, call).(*types.Func); ok && fn.Pkg() != nil && fn.Pkg().Path() == "go/types" &&
									(fn.Name() == "LookupParent" || fn.Name() == "Lookup") {
									if s, ok := constString(info, call.Args[0]); ok && s == "panic" {
										lookupObj = true
									}
								}
							}
							if ta, ok := unparen(r).(*ast.TypeAssertExpr); ok {
								if t := info.TypeOf(ta.Type); t != nil && t.String() == "*go/types.Builtin" {
									builtinAssert = true
								}
							}
						}
					}
				}
				if strings.Contains(exprString(is.Cond), `"panic"`) {
					nameTest = true
				}
			}
			c.Check(lookupObj && builtinAssert, rule, key+"/by-object", as.Pos(),
				"insertion into the panic-call set must be guarded by a scope lookup of \"panic\" whose result is a *types.Builtin (lookup=%v, builtin-assert=%v, name-test=%v): otherwise a shadowed panic counts as terminating", lookupObj, builtinAssert, nameTest)
			// the key inserted is the call node that is emitted (ret.Val)
			return true
		})
	}
	c.Floor(rule, "insertions into the panic-call set", inserts, 1)
	// the predicate consults only the set: covered by R10.1's inlining of isPanicCall (membership atom)
	if fn := c.LookupFunc("(*termChecker).isPanicCall"); fn != nil {
		fd := c.DeclOf(fn)
		usesName := false
		inspectFunc(fd, func(n ast.Node) bool {
			if bl, ok := n.(*ast.BasicLit); ok && strings.Contains(bl.Value, "panic") {
				usesName = true
			}
			if sel, ok := n.(*ast.SelectorExpr); ok && sel.Sel.Name == "Name" {
				usesName = true
			}
			return true
		})
		c.Check(!usesName, rule, "isPanicCall/by-object", fd.Pos(), "the panic predicate must not look at identifier names")
	} else {
		c.Undecided(rule, "anchor/isPanicCall", token.NoPos, "panic predicate not found")
	}
}

// ---------------------------------------------------------------------------
// R10.3 the verdict is applied.

func r103(c *fw.Ctx) {
	const rule = "R10.3"
	fd, p := needDecl(c, rule, "(*Func).End")
	if fd == nil {
		return
	}
	info := p.TypesInfo
	// (a) checker built from cb.current.panicCalls before endFuncBody
	var litPos, endBodyPos token.Pos
	var litOK bool
	var checkerObj types.Object
	inspectFunc(fd, func(n ast.Node) bool {
		switch x := n.(type) {
		case *ast.AssignStmt:
			for i, r := range x.Rhs {
				if lit := asLit(r); lit != nil && namedIs(info.TypeOf(lit), fw.Mod, "termChecker") {
					litPos = lit.Pos()
					f := structFields(info, lit)
					if e, ok := f["panicCalls"]; ok {
						s := exprString(e)
						litOK = strings.HasSuffix(s, ".current.panicCalls")
					}
					if i < len(x.Lhs) {
						if id, ok := x.Lhs[i].(*ast.Ident); ok {
							checkerObj = info.Defs[id]
						}
					}
				}
			}
		case *ast.CallExpr:
			if isFunc(callee(info, x), fw.Mod, "CodeBuilder.endFuncBody") && !endBodyPos.IsValid() {
				endBodyPos = x.Pos()
			}
		}
		return true
	})
	if !litPos.IsValid() || !endBodyPos.IsValid() {
		c.Undecided(rule, "(*Func).End/shape", fd.Pos(), "termChecker construction or endFuncBody call not found")
		return
	}
	c.Check(litOK, rule, "(*Func).End/checker-uses-body-panic-set", litPos, "the checker must be built from the current function body's panic-call set")
	c.Check(litPos < endBodyPos, rule, "(*Func).End/checker-before-restore", litPos, "the panic-call set must be captured before endFuncBody restores the enclosing function's context")

	// (b) the missing-return report: an if whose condition contains !checker.isTerminating(body, "") and Results().Len() > 0
	var report *ast.IfStmt
	inspectFunc(fd, func(n ast.Node) bool {
		is, ok := n.(*ast.IfStmt)
		if !ok {
			return true
		}
		ast.Inspect(is.Cond, func(m ast.Node) bool {
			if call, ok := m.(*ast.CallExpr); ok && isFunc(callee(info, call), fw.Mod, "termChecker.isTerminating") {
				report = is
			}
			return true
		})
		return true
	})
	if report == nil {
		c.Violate(rule, "(*Func).End/verdict-applied", fd.Pos(), "isTerminating is never consulted when a function body ends")
		return
	}
	// condition as truth table: atoms = {cate==Normal, results>0, terminating}
	env := &e6env{info: info, subst: map[types.Object]string{}}
	b := env.boolOf(report.Cond)
	set := map[string]bool{}
	b.atoms(set)
	var termAtom, resAtom, otherAtoms []string
	for a := range set {
		switch {
		case strings.Contains(a, "isTerminating("):
			termAtom = append(termAtom, a)
		case strings.Contains(a, "Results().Len()"):
			resAtom = append(resAtom, a)
		default:
			otherAtoms = append(otherAtoms, a)
		}
	}
	ok := len(termAtom) == 1 && len(resAtom) == 1 && strings.Contains(resAtom[0], "> 0")
	if ok {
		// with all other atoms true (normal, non-lambda function): report <=> results>0 && !terminating
		for _, tv := range []bool{false, true} {
			for _, rv := range []bool{false, true} {
				asg := map[string]bool{termAtom[0]: tv, resAtom[0]: rv}
				for _, o := range otherAtoms {
					asg[o] = true
				}
				if b.eval(asg) != (rv && !tv) {
					ok = false
				}
			}
		}
	}
	c.Check(ok, rule, "(*Func).End/report-condition", report.Cond.Pos(), "`missing return` must be reported exactly when the function has results and its body is not terminating; condition is %s", exprString(report.Cond))
	// the body argument of isTerminating is the block that becomes the function body
	reports := false
	ast.Inspect(report.Body, func(m ast.Node) bool {
		if call, ok := m.(*ast.CallExpr); ok {
			if fn, ok := callee(info, call).(*types.Func); ok && (fn.Name() == "handleCodeError" || fn.Name() == "handleCodeErrorf" || fn.Name() == "panicCodeError" || fn.Name() == "panicCodeErrorf") {
				reports = true
			}
		}
		return true
	})
	c.Check(reports, rule, "(*Func).End/reports", report.Body.Pos(), "the failing verdict must be delivered to the error handler")
	_ = checkerObj
	// the block checked is the block installed
	var checkedArg string
	ast.Inspect(report.Cond, func(m ast.Node) bool {
		if call, ok := m.(*ast.CallExpr); ok && isFunc(callee(info, call), fw.Mod, "termChecker.isTerminating") && len(call.Args) == 2 {
			checkedArg = exprString(call.Args[0])
		}
		return true
	})
	installed := false
	inspectFunc(fd, func(n ast.Node) bool {
		if as, ok := n.(*ast.AssignStmt); ok {
			for i, l := range as.Lhs {
				if strings.HasSuffix(exprString(l), ".Body") && i < len(as.Rhs) && exprString(as.Rhs[i]) == checkedArg {
					installed = true
				}
			}
		}
		if call, ok := n.(*ast.CallExpr); ok && isFunc(callee(info, call), fw.Mod, "newFuncLit") {
			for _, a := range call.Args {
				if exprString(a) == checkedArg {
					installed = true
				}
			}
		}
		return true
	})
	c.Check(installed && checkedArg != "", rule, "(*Func).End/checked-is-installed", report.Cond.Pos(), "the block whose termination is checked (%s) must be the block installed as the function body", checkedArg)

	// (c) endFuncBody calls checkLabels unconditionally (first-level statement)
	if efd, ep := needDecl(c, rule, "(*CodeBuilder).endFuncBody"); efd != nil {
		found := false
		isCheck := func(st ast.Stmt) bool {
			if es, ok := st.(*ast.ExprStmt); ok {
				if call, ok := es.X.(*ast.CallExpr); ok && isFunc(callee(ep.TypesInfo, call), fw.Mod, "funcBodyCtx.checkLabels") {
					return true
				}
			}
			return false
		}
		for _, st := range efd.Body.List {
			if isCheck(st) {
				found = true
			}
			// a guard `labels != nil` / `len(labels) > 0` skips the call only when there is nothing to check
			if is, ok := st.(*ast.IfStmt); ok && is.Init == nil && is.Else == nil {
				cond := exprString(is.Cond)
				onLabels := strings.Contains(cond, ".labels")
				if be, ok := unparen(is.Cond).(*ast.BinaryExpr); ok && onLabels && (be.Op == token.NEQ || be.Op == token.GTR) {
					for _, inner := range is.Body.List {
						if isCheck(inner) {
							found = true
						}
					}
				}
			}
		}
		c.Check(found, rule, "endFuncBody/checks-labels", efd.Pos(), "endFuncBody must call checkLabels on every path")
		// and it must do so before restoring the outer labels
	}
	// inline closures end through endFuncBody as well
	if ifd, ip := needDecl(c, rule, "(*Func).inlineClosureEnd"); ifd != nil {
		found := false
		inspectFunc(ifd, func(n ast.Node) bool {
			if call, ok := n.(*ast.CallExpr); ok && isFunc(callee(ip.TypesInfo, call), fw.Mod, "CodeBuilder.endFuncBody") {
				found = true
			}
			return true
		})
		c.Check(found, rule, "inlineClosureEnd/ends-body", ifd.Pos(), "inline closures must end through endFuncBody (label check)")
	}
	// checkLabels reports exactly !used
	if lfd, lp := needDecl(c, rule, "(*funcBodyCtx).checkLabels"); lfd != nil {
		ok := false
		inspectFunc(lfd, func(n ast.Node) bool {
			if is, ok2 := n.(*ast.IfStmt); ok2 {
				if u, ok3 := unparen(is.Cond).(*ast.UnaryExpr); ok3 && u.Op == token.NOT {
					if sel, ok4 := unparen(u.X).(*ast.SelectorExpr); ok4 && sel.Sel.Name == "used" {
						ast.Inspect(is.Body, func(m ast.Node) bool {
							if call, ok5 := m.(*ast.CallExpr); ok5 {
								if fn, ok6 := callee(lp.TypesInfo, call).(*types.Func); ok6 && strings.HasPrefix(fn.Name(), "handleCodeError") {
									ok = true
								}
							}
							return true
						})
					}
				}
			}
			return true
		})
		// inside a range over the labels map
		rangesLabels := false
		inspectFunc(lfd, func(n ast.Node) bool {
			if rs, ok2 := n.(*ast.RangeStmt); ok2 && strings.HasSuffix(exprString(rs.X), ".labels") {
				rangesLabels = true
			}
			return true
		})
		c.Check(ok && rangesLabels, rule, "checkLabels/reports-unused", lfd.Pos(), "every label with used == false must be reported (and only those)")
	}
}

// ---------------------------------------------------------------------------
// R10.4 label bookkeeping.

func r104(c *fw.Ctx) {
	const rule = "R10.4"
	p := c.Pkg("")
	info := p.TypesInfo
	// Every construction of a BranchStmt with a non-nil Label, and every call of emitGotoStmt,
	// must be preceded in the same function by `<label>.used = true`, or take its label ident from
	// a helper that sets it (labelFlow).
	setsUsed := func(fd *ast.FuncDecl) (bool, bool) { // (sets, conditional on l != nil only)
		found := false
		inspectFunc(fd, func(n ast.Node) bool {
			if as, ok := n.(*ast.AssignStmt); ok && len(as.Lhs) == 1 && len(as.Rhs) == 1 {
				if sel, ok := as.Lhs[0].(*ast.SelectorExpr); ok && sel.Sel.Name == "used" {
					if v := constOf(info, as.Rhs[0]); v != nil && v.String() == "true" {
						found = true
					}
				}
			}
			return true
		})
		return found, true
	}
	// labelFlow: returns a non-nil ident only on the path that sets used
	sites := 0
	if lf, _ := needDecl(c, rule, "(*CodeBuilder).labelFlow"); lf != nil {
		// shape: if l != nil { l.used = true; ...; return name, ident } ...; return "", nil
		ok := false
		for _, st := range lf.Body.List {
			is, isIf := st.(*ast.IfStmt)
			if !isIf {
				continue
			}
			if be, ok2 := unparen(is.Cond).(*ast.BinaryExpr); ok2 && be.Op == token.NEQ && exprString(be.Y) == "nil" {
				used := false
				for _, s := range is.Body.List {
					if as, ok3 := s.(*ast.AssignStmt); ok3 && len(as.Lhs) == 1 {
						if sel, ok4 := as.Lhs[0].(*ast.SelectorExpr); ok4 && sel.Sel.Name == "used" && exprString(sel.X) == exprString(be.X) {
							if v := constOf(info, as.Rhs[0]); v != nil && v.String() == "true" {
								used = true
							}
						}
					}
				}
				ok = used && endsInReturn(is.Body)
			}
		}
		// the final return yields a nil identifier
		last, _ := lf.Body.List[len(lf.Body.List)-1].(*ast.ReturnStmt)
		nilTail := last != nil && len(last.Results) == 2 && exprString(last.Results[1]) == "nil"
		sites++
		c.Check(ok && nilTail, rule, "labelFlow/marks-used", lf.Pos(), "labelFlow must set used=true on the path that returns a label identifier, and return nil otherwise")
	}
	for _, fd := range c.Decls() {
		if c.PkgOfDecl(fd) != p {
			continue
		}
		fname := declName(c, fd)
		inspectFunc(fd, func(n ast.Node) bool {
			switch x := n.(type) {
			case *ast.CompositeLit:
				if !namedIs(info.TypeOf(x), "go/ast", "BranchStmt") {
					return true
				}
				f := structFields(info, x)
				lab, has := f["Label"]
				if !has || exprString(lab) == "nil" {
					return true
				}
				sites++
				// label must come from labelFlow's second result in this function, or the function sets used itself
				fromFlow := false
				if id, ok := unparen(lab).(*ast.Ident); ok {
					obj := info.Uses[id]
					inspectFunc(fd, func(m ast.Node) bool {
						if as, ok := m.(*ast.AssignStmt); ok && len(as.Lhs) == 2 && len(as.Rhs) == 1 {
							if call, ok := as.Rhs[0].(*ast.CallExpr); ok && isFunc(callee(info, call), fw.Mod, "CodeBuilder.labelFlow") {
								if l, ok := as.Lhs[1].(*ast.Ident); ok && info.Defs[l] == obj {
									fromFlow = true
								}
							}
						}
						return true
					})
				}
				sets, _ := setsUsed(fd)
				if !fromFlow && !sets && !hasLabelValue(info, fd) {
					// pure emitter (receives only the label's name): the obligation is exported to its callers
					fobj, _ := info.Defs[fd.Name].(*types.Func)
					ncall := 0
					for _, id := range usesOf(c, fobj) {
						cfd := enclosingFunc(c, id.Pos())
						if cfd == nil {
							continue
						}
						ncall++
						csets, _ := setsUsed(cfd)
						c.Check(csets, rule, declName(c, cfd)+"/calls-"+fname+"/label-marked", id.Pos(), "%s emits a labelled branch through %s without marking the label used", declName(c, cfd), fname)
					}
					c.Check(ncall > 0, rule, fname+"/emitter-has-callers", x.Pos(), "labelled-branch emitter without callers")
					return true
				}
				c.Check(fromFlow || sets, rule, fname+"/branch-label-marked", x.Pos(), "a branch statement with a label is emitted without marking the label used")
			}
			return true
		})
	}
	// NewLabel: duplicate test dominates the insert and reports
	if nl, _ := needDecl(c, rule, "(*CodeBuilder).NewLabel"); nl != nil {
		var dupIf *ast.IfStmt
		var insertPos token.Pos
		for _, st := range nl.Body.List {
			switch s := st.(type) {
			case *ast.IfStmt:
				if s.Init != nil {
					if as, ok := s.Init.(*ast.AssignStmt); ok && len(as.Rhs) == 1 {
						if ix, ok := as.Rhs[0].(*ast.IndexExpr); ok && strings.HasSuffix(exprString(ix.X), ".labels") && len(as.Lhs) == 2 {
							if exprString(s.Cond) == exprString(as.Lhs[1]) {
								dupIf = s
							}
						}
					}
				}
			case *ast.AssignStmt:
				if len(s.Lhs) == 1 {
					if ix, ok := s.Lhs[0].(*ast.IndexExpr); ok && strings.HasSuffix(exprString(ix.X), ".labels") {
						insertPos = s.Pos()
					}
				}
			}
		}
		sites++
		okDup := dupIf != nil && insertPos.IsValid() && dupIf.End() < insertPos && endsInReturn(dupIf.Body)
		reports := false
		if dupIf != nil {
			ast.Inspect(dupIf.Body, func(m ast.Node) bool {
				if call, ok := m.(*ast.CallExpr); ok {
					if fn, ok := callee(info, call).(*types.Func); ok && (strings.HasPrefix(fn.Name(), "handleCodeError") || strings.HasPrefix(fn.Name(), "panicCodeError")) {
						reports = true
					}
				}
				return true
			})
		}
		c.Check(okDup && reports, rule, "NewLabel/duplicate-test", nl.Pos(), "a label defined twice must be reported and must not replace the first definition (test before insert, report, return)")
	}
	c.Floor(rule, "label sites", sites, 5)
}

// hasLabelValue reports whether fd has a parameter or receiver of type *Label.
func hasLabelValue(info *types.Info, fd *ast.FuncDecl) bool {
	found := false
	check := func(fl *ast.FieldList) {
		if fl == nil {
			return
		}
		for _, f := range fl.List {
			if namedIs(info.TypeOf(f.Type), fw.Mod, "Label") {
				found = true
			}
		}
	}
	check(fd.Type.Params)
	check(fd.Recv)
	return found
}

// R10.5: labels are function-scoped (Go spec, Labeled statements: "the scope of a label is the body of the
// function in which it is declared and excludes the body of any nested function"), and so is the set of
// panic calls the missing-return analysis consults. A function body - closures included - therefore starts
// with empty tables: in startFuncBody the first value given to current.labels and current.panicCalls is nil.
// Otherwise a closure re-using an outer label name is reported as a duplicate and outer labels used after
// the closure are reported as unused when the closure ends.
func r105(c *fw.Ctx) {
	const rule = "R10.5"
	fd, p := needDecl(c, rule, "(*CodeBuilder).startFuncBody")
	if fd == nil {
		return
	}
	info := p.TypesInfo
	first := map[string]ast.Expr{}
	inspectFunc(fd, func(n ast.Node) bool {
		as, ok := n.(*ast.AssignStmt)
		if !ok || len(as.Lhs) != len(as.Rhs) {
			return true
		}
		for i, l := range as.Lhs {
			se, ok := unparen(l).(*ast.SelectorExpr)
			if !ok {
				continue
			}
			fv, ok := info.Uses[se.Sel].(*types.Var)
			if !ok || !fv.IsField() {
				continue
			}
			if inner, ok := unparen(se.X).(*ast.SelectorExpr); !ok || inner.Sel.Name != "current" {
				continue
			}
			if _, seen := first[fv.Name()]; !seen {
				first[fv.Name()] = as.Rhs[i]
			}
		}
		return true
	})
	for _, f := range []string{"labels", "panicCalls"} {
		e := first[f]
		isNil := false
		if e != nil {
			if tv, ok := info.Types[e]; ok && tv.IsNil() {
				isNil = true
			}
		}
		c.Check(isNil, rule, "startFuncBody/fresh-"+f, fd.Pos(), "a function body must start with an empty %s table: the enclosing function's %s would otherwise be visible inside (and checked at the end of) the closure", f, f)
	}
}
