package rules

import (
	"fmt"
	"go/token"
	"go/types"
	"os"
	"sort"
	"strings"

	"golang.org/x/tools/go/callgraph"
	"golang.org/x/tools/go/ssa"

	"gogenvet/fw"
)

// E5: inclusion-based (Andersen) points-to analysis over go/ssa with one context
// distinction, the phase: every function of the analysed packages is analysed in up to
// two copies, "init" (reachable from a package initialiser) and "run" (reachable from the
// exported API); an abstract object is (allocation site, phase). Struct objects in memory
// are field-sensitive (sub-objects), struct values in registers are blobs, slices/arrays/
// maps have one element sub-object. Calls are resolved through the VTA call graph.
// Nothing is executed.

type phaseT uint8

const (
	phInit phaseT = 0
	phRun  phaseT = 1
)

func (p phaseT) String() string {
	if p == phInit {
		return "init"
	}
	return "run"
}

type objID int32
type nodeID int32

type ptaObj struct {
	id      objID
	kind    string // alloc, global, lib, caller, ext, box, closure
	phase   phaseT
	label   string
	site    interface{}
	pos     token.Pos
	typ     types.Type // type of the storage (element type for allocs)
	parent  objID      // -1 for roots
	field   int        // field index, -1 = element
	content nodeID     // pointers stored in the cell itself
	smash   nodeID     // pointers stored by whole-object stores (flows into every sub-object)
	all     nodeID     // union of content of the object and all its sub-objects
	subs    map[int]objID
	closed  bool       // opaque object: loads from it yield itself
	flat    bool       // structure unknown: field-insensitive
	scalar  bool       // shared cell for all pointer-free fields of the parent
	iface   types.Type // for opaque library values: the interface type they were obtained as
}

type bitset []uint64

func (b *bitset) add(i int32) bool {
	w := int(i >> 6)
	for len(*b) <= w {
		*b = append(*b, 0)
	}
	m := uint64(1) << (uint(i) & 63)
	if (*b)[w]&m != 0 {
		return false
	}
	(*b)[w] |= m
	return true
}

func (b bitset) has(i int32) bool {
	w := int(i >> 6)
	return w < len(b) && b[w]&(1<<(uint(i)&63)) != 0
}

func (b bitset) each(f func(i int32)) {
	for w, x := range b {
		for x != 0 {
			t := x & -x
			bit := 0
			for y := t; y > 1; y >>= 1 {
				bit++
			}
			f(int32(w*64 + bit))
			x &^= t
		}
	}
}

type complexC struct {
	kind   int // 1 load, 2 store, 3 fieldaddr, 4 loadAll, 5 storeAll, 6 filter, 7 read element, 8 write element, 9 closure
	other  nodeID
	field  int
	filter types.Type
	want   types.Type // static type of the storage the pointer must designate (nil = unknown)
}

// ptaCut is a named infeasibility: the value `at` of function fn cannot designate init-time objects whose label
// contains target. One symbol, one reason; each cut is listed in the evidence.
type ptaCut struct{ fn, at, target, why string }

var ptaCuts = []ptaCut{
	{"internal/go/printer:checkSpecs", "param:d", "util_gengo.go:1204",
		"checkSpecs rewrites only declarations with Tok == token.TYPE (first statement); the shared declaration `var _xgo_ok bool` has Tok == token.VAR"},
	{"chgObject", "callarg:setDenoted:0", "",
		"chgObject applies setDenoted to ret.Val immediately after ret := toObject(...): toObjectExpr allocates a new identifier/selector/operator node for every call, so the patched node is never a shared singleton (the flow-insensitive heap merges later rewrites of ret.Val into this load)"},
	{"(*ClassDefs).NewAndInit", "assert:*go/ast.Ident", "",
		"stmt is the := statement that DefineVarStart created two statements earlier (cb.current.stmts[decl.at]); its left-hand sides are identifiers freshly allocated by newValueDecl, never the shared `_`/true/false/nil"},
}

type ptaNode struct {
	cut     *ptaCut
	typ     types.Type // static type of the values held (nil = mixed/unknown): members are filtered by it
	pts     bitset
	delta   bitset // members not yet propagated
	copyTo  []nodeID
	copySet map[nodeID]bool
	complex []complexC
}

type fnCopy struct {
	fn    *ssa.Function
	ph    phaseT
	ret   []nodeID
	built bool
}

type writeSite struct {
	fn     *ssa.Function
	ph     phaseT
	instr  ssa.Instruction
	kind   string // store, mapupdate, copy, append, mutator:<name>
	target nodeID
	guards []nilGuard
	elem   bool       // the write goes to the element sub-object of the targets
	want   types.Type // static type of the written storage
}

// nilGuard: the write is dominated by `x.f != nil` for the same base pointer x.
type nilGuard struct {
	field int
}

type pta struct {
	c           *fw.Ctx
	cg          *callgraph.Graph
	nodes       []*ptaNode
	objs        []*ptaObj
	valNode     map[valKey]nodeID
	copies      map[copyKey]*fnCopy
	globals     map[*ssa.Global]objID
	allocs      map[allocKey]objID
	work        []nodeID
	inWork      []bool
	writes      []writeSite
	shortened   []nodeID            // operands of s[:k] / s[:k:m]: their backing arrays may have spare capacity afterwards
	handBack    map[string][]nodeID // API-root parameters of type *T (T declared in the analysed packages), by T
	libObjs     map[string][]objID  // run-phase objects of such types allocated by the library, by T
	closure     map[*ssa.Function][]closureBind
	callerO     objID
	nExt        int
	aborted     bool
	acceptCache map[acceptKey]bool
	why         map[[2]int32]int32 // (node, obj) -> node it came from (-1: direct)
	whyObj      map[[2]int32]int32
	cutsUsed    map[string]string
	flowSrc     nodeID
	curSrc      nodeID
	nodeLabel   map[nodeID]string
	unanalysed  map[string]int
}

type valKey struct {
	v  ssa.Value
	ph phaseT
}
type copyKey struct {
	fn *ssa.Function
	ph phaseT
}
type allocKey struct {
	site interface{}
	ph   phaseT
	tag  string
}
type closureBind struct {
	binds []nodeID
}

func newPTA(c *fw.Ctx) *pta {
	p := &pta{c: c, cg: c.CallGraph(Coarse), valNode: map[valKey]nodeID{}, copies: map[copyKey]*fnCopy{},
		globals: map[*ssa.Global]objID{}, allocs: map[allocKey]objID{}, acceptCache: map[acceptKey]bool{}, cutsUsed: map[string]string{}, closure: map[*ssa.Function][]closureBind{}, unanalysed: map[string]int{}}
	if os.Getenv("PTA_WHY") != "" {
		p.why = map[[2]int32]int32{}
		p.whyObj = map[[2]int32]int32{}
		p.nodeLabel = map[nodeID]string{}
	}
	p.callerO = p.newObj("caller", phRun, "caller-owned argument", token.NoPos, nil, true)
	return p
}

func (p *pta) newNode() nodeID {
	p.nodes = append(p.nodes, &ptaNode{})
	p.inWork = append(p.inWork, false)
	return nodeID(len(p.nodes) - 1)
}

func (p *pta) newObj(kind string, ph phaseT, label string, pos token.Pos, typ types.Type, closed bool) objID {
	o := &ptaObj{id: objID(len(p.objs)), kind: kind, phase: ph, label: label, pos: pos, typ: typ, parent: -1, field: -2, closed: closed}
	o.content, o.smash, o.all = p.newNode(), p.newNode(), p.newNode()
	p.objs = append(p.objs, o)
	if p.nodeLabel != nil {
		p.nodeLabel[o.content] = fmt.Sprintf("content of obj %d (%s)", o.id, label)
		p.nodeLabel[o.smash] = fmt.Sprintf("smash of obj %d (%s)", o.id, label)
		p.nodeLabel[o.all] = fmt.Sprintf("all of obj %d (%s)", o.id, label)
	}
	if typ != nil && !closed {
		switch typ.Underlying().(type) {
		case *types.Pointer, *types.Slice, *types.Map, *types.Chan, *types.Interface:
			p.nodes[o.content].typ = typ
		}
	}
	p.addCopy(o.content, o.all)
	p.addCopy(o.smash, o.content)
	if closed {
		p.addObj(o.content, o.id)
	}
	return o.id
}

const maxSubDepth = 3

func (p *pta) depth(o objID) int {
	d := 0
	for p.objs[o].parent >= 0 {
		o = p.objs[o].parent
		d++
	}
	return d
}

func (p *pta) sub(o objID, field int) objID {
	po := p.objs[o]
	if po.closed || po.flat {
		return o
	}
	if p.depth(o) >= maxSubDepth {
		return o // collapse deeper structure into the object itself
	}
	if s, ok := po.subs[field]; ok {
		return s
	}
	var typ types.Type
	if po.typ != nil {
		switch t := po.typ.Underlying().(type) {
		case *types.Struct:
			if field >= 0 && field < t.NumFields() {
				typ = t.Field(field).Type()
			}
		case *types.Array:
			typ = t.Elem()
		case *types.Slice:
			typ = t.Elem()
		case *types.Map:
			typ = t.Elem()
		}
	}
	if typ != nil && !pointerLike(typ) {
		// scalar cell: nothing to track inside; one shared sub-object per parent
		if s, ok := po.subs[-9]; ok {
			po.subs[field] = s
			return s
		}
		s := p.newObj(po.kind, po.phase, po.label, po.pos, nil, false)
		so := p.objs[s]
		so.scalar = true
		so.parent, so.field = o, -9
		if po.subs == nil {
			po.subs = map[int]objID{}
		}
		po.subs[-9] = s
		po.subs[field] = s
		return s
	}
	s := p.newObj(po.kind, po.phase, po.label, po.pos, typ, false)
	so := p.objs[s]
	so.parent, so.field = o, field
	if po.subs == nil {
		po.subs = map[int]objID{}
	}
	po.subs[field] = s
	p.addCopy(po.smash, so.smash)
	p.addCopy(so.all, po.all)
	if po.kind == "caller" {
		p.seedCaller(s)
	}
	return s
}

func (p *pta) empty(n nodeID) bool {
	for _, w := range p.nodes[n].pts {
		if w != 0 {
			return false
		}
	}
	return true
}

// callerObj: caller-owned storage of static type t (one abstract object per type); its pointer-typed
// fields lead to caller-owned storage again, interface-typed fields to the opaque caller object.
func (p *pta) callerObj(t types.Type) objID {
	k := allocKey{t.String(), phRun, "caller"}
	if o, ok := p.allocs[k]; ok {
		return o
	}
	o := p.newObj("caller", phRun, "caller-owned "+t.String(), token.NoPos, t, false)
	p.allocs[k] = o
	p.seedCaller(o)
	return o
}

// seedCaller gives a caller-owned cell its initial contents according to its type.
func (p *pta) seedCaller(o objID) {
	ob := p.objs[o]
	if ob.typ == nil {
		return
	}
	switch u := ob.typ.Underlying().(type) {
	case *types.Pointer:
		p.addObj(ob.content, p.callerObj(u.Elem()))
	case *types.Slice, *types.Map, *types.Chan:
		p.addObj(ob.content, p.callerObj(ob.typ))
	case *types.Interface, *types.Signature:
		p.addObj(ob.content, p.callerO)
	}
}

// callerValue seeds node n (of static type t) with caller-owned storage.
func (p *pta) callerValue(n nodeID, t types.Type) {
	if n < 0 {
		return
	}
	switch u := t.Underlying().(type) {
	case *types.Pointer:
		p.addObj(n, p.callerObj(u.Elem()))
	case *types.Slice, *types.Map, *types.Chan:
		p.addObj(n, p.callerObj(t))
	default:
		p.addObj(n, p.callerO)
	}
}

func (p *pta) objRoot(o objID) objID {
	for p.objs[o].parent >= 0 {
		o = p.objs[o].parent
	}
	return o
}

func (p *pta) push(n nodeID) {
	if !p.inWork[n] {
		p.inWork[n] = true
		p.work = append(p.work, n)
	}
}

func (p *pta) addObj(n nodeID, o objID) {
	if n < 0 {
		return
	}
	if !p.accept(n, o) {
		return
	}
	if p.nodes[n].pts.add(int32(o)) {
		p.nodes[n].delta.add(int32(o))
		p.push(n)
		if p.why != nil {
			p.why[[2]int32{int32(n), int32(o)}] = -1
		}
	}
}

// accept: Go is memory safe — a value of static type *T / []E / map[K]V can only designate storage of that type.
func (p *pta) accept(n nodeID, o objID) bool {
	if c := p.nodes[n].cut; c != nil {
		r := p.objs[p.objRoot(o)]
		if r.phase == phInit && strings.Contains(r.label, c.target) {
			p.cutsUsed[c.fn+"/"+c.at] = c.why
			return false
		}
	}
	t := p.nodes[n].typ
	if t == nil {
		return true
	}
	var want types.Type
	switch u := t.Underlying().(type) {
	case *types.Pointer:
		want = u.Elem()
	case *types.Slice, *types.Map, *types.Chan:
		want = t
	case *types.Interface:
		if u.Empty() {
			return true
		}
		ob := p.objs[o]
		k := acceptKey{t, ob.typ, ob.iface, ob.kind == "caller", ob.kind == "box"}
		if v, ok := p.acceptCache[k]; ok {
			return v
		}
		v := p.typeMatches(o, t)
		p.acceptCache[k] = v
		return v
	default:
		return true // funcs, structs (blobs), tuples
	}
	ob := p.objs[o]
	k := acceptKey{want, ob.typ, ob.iface, ob.kind == "caller", ob.closed != ob.scalar != ob.flat}
	if v, ok := p.acceptCache[k]; ok {
		return v
	}
	v := p.compat(o, want)
	p.acceptCache[k] = v
	return v
}

type acceptKey struct {
	want, have, iface types.Type
	caller            bool
	closed            bool
}

func (p *pta) addCopy(src, dst nodeID) {
	if src < 0 || dst < 0 || src == dst {
		return
	}
	nd := p.nodes[src]
	if nd.copySet == nil {
		nd.copySet = map[nodeID]bool{}
	}
	if nd.copySet[dst] {
		return
	}
	nd.copySet[dst] = true
	nd.copyTo = append(nd.copyTo, dst)
	if len(nd.pts) > 0 {
		p.curSrc = src
		p.flow(nd.pts, dst)
	}
}

// flow adds the members of set to node dst (as pending delta).
func (p *pta) flow(set bitset, dst nodeID) {
	dn := p.nodes[dst]
	if p.why != nil && p.curSrc >= 0 {
		p.flowSrc = p.curSrc
	}
	changed := false
	typed := dn.typ != nil
	for w, x := range set {
		if x == 0 {
			continue
		}
		for len(dn.pts) <= w {
			dn.pts = append(dn.pts, 0)
		}
		nb := x &^ dn.pts[w]
		if nb != 0 && typed {
			// filter the candidates by the static type of the destination
			for y := nb; y != 0; {
				t := y & -y
				bit := 0
				for z := t; z > 1; z >>= 1 {
					bit++
				}
				if !p.accept(dst, objID(w*64+bit)) {
					nb &^= t
				}
				y &^= t
			}
		}
		if nb != 0 && p.why != nil {
			for y := nb; y != 0; {
				t := y & -y
				bit := 0
				for z := t; z > 1; z >>= 1 {
					bit++
				}
				p.why[[2]int32{int32(dst), int32(w*64 + bit)}] = int32(p.flowSrc)
				y &^= t
			}
		}
		if nb != 0 {
			dn.pts[w] |= nb
			for len(dn.delta) <= w {
				dn.delta = append(dn.delta, 0)
			}
			dn.delta[w] |= nb
			changed = true
		}
	}
	if changed {
		p.push(dst)
	}
}

func (p *pta) addComplex(n nodeID, cc complexC) {
	if n < 0 {
		return
	}
	nd := p.nodes[n]
	nd.complex = append(nd.complex, cc)
	// apply to the members already known
	if len(nd.pts) > 0 {
		var cur []int32
		nd.pts.each(func(i int32) { cur = append(cur, i) })
		for _, i := range cur {
			p.apply(n, objID(i), cc)
		}
	}
}

func pointerLike(t types.Type) bool {
	switch u := t.Underlying().(type) {
	case *types.Pointer, *types.Slice, *types.Map, *types.Chan, *types.Interface, *types.Signature:
		return true
	case *types.Struct:
		for i := 0; i < u.NumFields(); i++ {
			if pointerLike(u.Field(i).Type()) {
				return true
			}
		}
	case *types.Array:
		return pointerLike(u.Elem())
	case *types.Tuple:
		for i := 0; i < u.Len(); i++ {
			if pointerLike(u.At(i).Type()) {
				return true
			}
		}
	case *types.Basic:
		return u.Kind() == types.UnsafePointer
	}
	return false
}

func (p *pta) analysed(fn *ssa.Function) bool {
	if fn == nil || fn.Blocks == nil {
		return false
	}
	if fn.Pkg != nil {
		return p.c.IsAnalysed(fn.Pkg.Pkg)
	}
	// wrappers, bound-method closures and generic instances have no package of their own
	if o := fn.Object(); o != nil && o.Pkg() != nil {
		return p.c.IsAnalysed(o.Pkg())
	}
	if fn.Parent() != nil {
		return p.analysed(fn.Parent())
	}
	return false
}

// node returns the node of an SSA value in a function copy (-1 when the value carries no pointers).
func (p *pta) node(v ssa.Value, ph phaseT) nodeID {
	switch x := v.(type) {
	case *ssa.Const:
		return -1
	case *ssa.Function:
		return -1
	case *ssa.Builtin:
		return -1
	case *ssa.Global:
		k := valKey{v, 0}
		if n, ok := p.valNode[k]; ok {
			return n
		}
		n := p.newNode()
		p.valNode[k] = n
		p.addObj(n, p.globalObj(x))
		return n
	}
	if !pointerLike(v.Type()) {
		return -1
	}
	k := valKey{v, ph}
	if _, isFV := v.(*ssa.FreeVar); isFV {
		k.ph = 0 // free variables are bound once, whatever the phase of the closure body
	}
	if n, ok := p.valNode[k]; ok {
		return n
	}
	n := p.newNode()
	p.valNode[k] = n
	p.nodes[n].typ = v.Type()
	if v.Parent() != nil {
		fl := funcLabel(v.Parent())
		for i := range ptaCuts {
			c := &ptaCuts[i]
			if c.fn != fl {
				continue
			}
			switch x := v.(type) {
			case *ssa.Parameter:
				if c.at == "param:"+x.Name() {
					p.nodes[n].cut = c
				}
			case *ssa.TypeAssert:
				if c.at == "assert:"+x.AssertedType.String() {
					p.nodes[n].cut = c
				}
			}
			if strings.HasPrefix(c.at, "callarg:") {
				parts := strings.Split(c.at, ":")
				if refs := v.Referrers(); refs != nil && len(parts) == 3 {
					for _, r := range *refs {
						if call, ok := r.(ssa.CallInstruction); ok {
							if sc := call.Common().StaticCallee(); sc != nil && sc.Name() == parts[1] {
								for ai, a := range call.Common().Args {
									if a == v && fmt.Sprint(ai) == parts[2] {
										p.nodes[n].cut = c
									}
								}
							}
						}
					}
				}
			}
		}
	}
	if p.nodeLabel != nil {
		fnn := ""
		if v.Parent() != nil {
			fnn = v.Parent().String()
		}
		p.nodeLabel[n] = fmt.Sprintf("%s %s = %s [%s] in %s (%s)", ph, v.Name(), v.String(), v.Type(), fnn, p.c.Position(v.Pos()))
	}
	return n
}

func (p *pta) globalObj(g *ssa.Global) objID {
	if o, ok := p.globals[g]; ok {
		return o
	}
	elem := g.Type().(*types.Pointer).Elem()
	var o objID
	if g.Pkg != nil && p.c.IsAnalysed(g.Pkg.Pkg) {
		o = p.newObj("global", phInit, "package variable "+g.Pkg.Pkg.Name()+"."+g.Name(), g.Pos(), elem, false)
	} else {
		name := g.Name()
		if g.Pkg != nil {
			name = g.Pkg.Pkg.Path() + "." + name
		}
		o = p.newObj("lib", phInit, "library variable "+name, g.Pos(), elem, true)
	}
	p.globals[g] = o
	return o
}

func (p *pta) allocObj(site interface{}, ph phaseT, tag, label string, pos token.Pos, typ types.Type) objID {
	k := allocKey{site, ph, tag}
	if o, ok := p.allocs[k]; ok {
		return o
	}
	o := p.newObj("alloc", ph, label, pos, typ, false)
	p.objs[o].site = site
	p.allocs[k] = o
	// an object the library allocates while building can be handed to the caller and come back as the
	// receiver or an argument of a later API call
	if ph == phRun && typ != nil {
		if key := p.handBackKey(typ); key != "" {
			if p.libObjs == nil {
				p.libObjs = map[string][]objID{}
			}
			p.libObjs[key] = append(p.libObjs[key], o)
			for _, n := range p.handBack[key] {
				p.addObj(n, o)
			}
		}
	}
	return o
}

// handBackKey: T is (a pointer to) a named type declared in the analysed packages.
func (p *pta) handBackKey(t types.Type) string {
	if ptr, ok := t.Underlying().(*types.Pointer); ok {
		t = ptr.Elem()
	}
	n := namedOf(t)
	if n == nil || n.Obj().Pkg() == nil || !p.c.IsAnalysed(n.Obj().Pkg()) {
		return ""
	}
	if _, isStruct := n.Underlying().(*types.Struct); !isStruct {
		return ""
	}
	return n.Obj().Pkg().Path() + "." + n.Obj().Name()
}

// ensure builds the constraints of a function copy.
func (p *pta) ensure(fn *ssa.Function, ph phaseT) *fnCopy {
	k := copyKey{fn, ph}
	if fc, ok := p.copies[k]; ok {
		return fc
	}
	fc := &fnCopy{fn: fn, ph: ph}
	p.copies[k] = fc
	res := fn.Signature.Results()
	for i := 0; i < res.Len(); i++ {
		if pointerLike(res.At(i).Type()) {
			fc.ret = append(fc.ret, p.newNode())
		} else {
			fc.ret = append(fc.ret, -1)
		}
	}
	if p.analysed(fn) {
		p.build(fc)
	}
	return fc
}

func (p *pta) posLabel(fn *ssa.Function, pos token.Pos) string {
	top := fn
	for top.Parent() != nil {
		top = top.Parent()
	}
	name := top.Name()
	if o, ok := top.Object().(*types.Func); ok {
		name = fw.FuncName(o)
	}
	return name + " at " + p.c.Position(pos)
}

func (p *pta) build(fc *fnCopy) {
	fn, ph := fc.fn, fc.ph
	fc.built = true
	// closures: bind free variables
	for _, cb := range p.closure[fn] {
		for i, fv := range fn.FreeVars {
			if i < len(cb.binds) {
				p.addCopy(cb.binds[i], p.node(fv, ph))
			}
		}
	}
	for _, b := range fn.Blocks {
		for _, ins := range b.Instrs {
			p.instr(fc, ins)
		}
	}
	_ = ph
}

func (p *pta) instr(fc *fnCopy, ins ssa.Instruction) {
	fn, ph := fc.fn, fc.ph
	n := func(v ssa.Value) nodeID { return p.node(v, ph) }
	switch x := ins.(type) {
	case *ssa.Alloc:
		o := p.allocObj(x, ph, "", "object allocated in "+p.posLabel(fn, x.Pos()), x.Pos(), x.Type().(*types.Pointer).Elem())
		p.addObj(n(x), o)
	case *ssa.MakeSlice:
		o := p.allocObj(x, ph, "", "slice made in "+p.posLabel(fn, x.Pos()), x.Pos(), x.Type())
		p.addObj(n(x), o)
	case *ssa.MakeMap:
		o := p.allocObj(x, ph, "", "map made in "+p.posLabel(fn, x.Pos()), x.Pos(), x.Type())
		p.addObj(n(x), o)
	case *ssa.MakeChan:
		o := p.allocObj(x, ph, "", "chan made in "+p.posLabel(fn, x.Pos()), x.Pos(), x.Type())
		p.addObj(n(x), o)
	case *ssa.MakeInterface:
		if isPtrShaped(x.X.Type()) {
			p.addCopy(n(x.X), n(x))
		} else if pointerLike(x.X.Type()) {
			// boxed value: an object of the value's type
			o := p.allocObj(x, ph, "box", "boxed "+x.X.Type().String()+" in "+p.posLabel(fn, x.Pos()), x.Pos(), x.X.Type())
			p.objs[o].kind = "box"
			if src := n(x.X); src >= 0 {
				p.addCopy(src, p.objs[o].smash)
			}
			p.addObj(n(x), o)
		}
	case *ssa.MakeClosure:
		anon := x.Fn.(*ssa.Function)
		var binds []nodeID
		for _, b := range x.Bindings {
			binds = append(binds, n(b))
		}
		p.closure[anon] = append(p.closure[anon], closureBind{binds})
		for i, fv := range anon.FreeVars {
			if i < len(binds) {
				p.addCopy(binds[i], p.node(fv, ph))
			}
		}
		// the closure body runs in the phase of whoever calls it; analysing it in the creator's phase as well
		p.ensure(anon, ph)
	case *ssa.Phi:
		for _, e := range x.Edges {
			p.addCopy(n(e), n(x))
		}
	case *ssa.ChangeType:
		p.addCopy(n(x.X), n(x))
	case *ssa.ChangeInterface:
		p.addCopy(n(x.X), n(x))
	case *ssa.Convert:
		p.addCopy(n(x.X), n(x))
	case *ssa.SliceToArrayPointer:
		p.addCopy(n(x.X), n(x))
	case *ssa.MultiConvert:
		p.addCopy(n(x.X), n(x))
	case *ssa.Slice:
		// slicing a pointer-to-array yields a slice over the array object; slicing a slice/string keeps the backing store
		p.addCopy(n(x.X), n(x))
		if x.High != nil || x.Max != nil {
			// s[:k] leaves spare capacity behind the result: an append to it writes into the backing array
			if src := n(x.X); src >= 0 {
				p.shortened = append(p.shortened, src)
			}
		}
	case *ssa.FieldAddr:
		p.addComplex(n(x.X), complexC{kind: 3, other: n(x), field: x.Field, want: pointee(x.X.Type())})
	case *ssa.IndexAddr:
		p.addComplex(n(x.X), complexC{kind: 3, other: n(x), field: -1, want: containerOf(x.X.Type())})
	case *ssa.Field:
		p.addCopy(n(x.X), n(x))
	case *ssa.Index:
		p.addCopy(n(x.X), n(x))
	case *ssa.Lookup:
		if dst := n(x); dst >= 0 {
			p.addComplex(n(x.X), complexC{kind: 7, other: dst, field: -1, want: containerOf(x.X.Type())})
		}
	case *ssa.UnOp:
		switch x.Op {
		case token.MUL:
			if dst := n(x); dst >= 0 {
				k := 1
				if !isPtrShaped(x.Type()) {
					k = 4
				}
				p.addComplex(n(x.X), complexC{kind: k, other: dst, want: pointee(x.X.Type())})
			}
		case token.ARROW:
			if dst := n(x); dst >= 0 {
				p.addComplex(n(x.X), complexC{kind: 7, other: dst, field: -1})
			}
		}
	case *ssa.Store:
		src := n(x.Val)
		addr := n(x.Addr)
		if addr < 0 {
			return
		}
		if self, extra := selfDerived(x); self {
			// x.f = x.f[:i] / x.f = append(x.f, e): each object keeps its own contents; only what is new flows in
			for _, e := range extra {
				if en := p.freshNode(e, ph); en >= 0 {
					p.addComplex(addr, complexC{kind: 2, other: en, want: pointee(x.Addr.Type())})
				}
			}
			p.writes = append(p.writes, writeSite{fn: fn, ph: ph, instr: ins, kind: "store", target: addr, guards: nilGuards(x), want: pointee(x.Addr.Type())})
			return
		}
		if src >= 0 {
			k := 2
			if !isPtrShaped(x.Val.Type()) {
				k = 5
			}
			p.addComplex(addr, complexC{kind: k, other: src, want: pointee(x.Addr.Type())})
		}
		p.writes = append(p.writes, writeSite{fn: fn, ph: ph, instr: ins, kind: "store", target: addr, guards: nilGuards(x), want: pointee(x.Addr.Type())})
	case *ssa.MapUpdate:
		m := n(x.Map)
		if m < 0 {
			return
		}
		for _, v := range []ssa.Value{x.Key, x.Value} {
			if src := n(v); src >= 0 {
				p.addComplex(m, complexC{kind: 8, other: src, field: -1, want: containerOf(x.Map.Type())})
			}
		}
		p.writes = append(p.writes, writeSite{fn: fn, ph: ph, instr: ins, kind: "mapupdate", target: m, want: containerOf(x.Map.Type())})
	case *ssa.Send:
		if src := n(x.X); src >= 0 {
			p.addComplex(n(x.Chan), complexC{kind: 8, other: src, field: -1})
		}
	case *ssa.TypeAssert:
		src, dst := n(x.X), n(x)
		if src < 0 || dst < 0 {
			return
		}
		if x.CommaOk {
			// tuple (value, ok): node of the tuple carries the value
		}
		p.addComplex(src, complexC{kind: 6, other: dst, filter: x.AssertedType})
	case *ssa.Extract:
		// tuples: calls have per-index nodes; other tuple producers use one node
		if call, ok := x.Tuple.(*ssa.Call); ok {
			p.addCopy(p.tupleNode(call, x.Index, ph), n(x))
		} else {
			p.addCopy(n(x.Tuple), n(x))
		}
	case *ssa.Range:
		p.addCopy(n(x.X), n(x))
	case *ssa.Next:
		if dst := n(x); dst >= 0 {
			p.addComplex(n(x.Iter), complexC{kind: 7, other: dst, field: -1})
		}
	case *ssa.Select:
		for _, st := range x.States {
			if st.Send != nil {
				if src := n(st.Send); src >= 0 {
					p.addComplex(n(st.Chan), complexC{kind: 8, other: src, field: -1})
				}
			} else if dst := n(x); dst >= 0 {
				p.addComplex(n(st.Chan), complexC{kind: 7, other: dst, field: -1})
			}
		}
	case *ssa.Return:
		for i, r := range x.Results {
			if i < len(fc.ret) {
				p.addCopy(n(r), fc.ret[i])
			}
		}
	case *ssa.Call:
		p.call(fc, x, x.Common())
	case *ssa.Go:
		p.call(fc, x, x.Common())
	case *ssa.Defer:
		p.call(fc, x, x.Common())
	case *ssa.BinOp, *ssa.If, *ssa.Jump, *ssa.Panic, *ssa.RunDefers, *ssa.DebugRef:
	}
}

func isPtrShaped(t types.Type) bool {
	switch t.Underlying().(type) {
	case *types.Pointer, *types.Slice, *types.Map, *types.Chan, *types.Interface, *types.Signature:
		return true
	case *types.Basic:
		return true
	}
	return false
}

// selfDerived recognises `*a = v` where v is the value loaded from the same address expression (same base SSA
// value and field), possibly resliced or appended to. extra lists the append calls whose fresh backing array is new.
func selfDerived(st *ssa.Store) (bool, []*ssa.Call) {
	fa, ok := st.Addr.(*ssa.FieldAddr)
	if !ok {
		return false, nil
	}
	var extra []*ssa.Call
	var walk func(v ssa.Value, depth int) bool
	walk = func(v ssa.Value, depth int) bool {
		if depth > 6 {
			return false
		}
		switch x := v.(type) {
		case *ssa.UnOp:
			if x.Op == token.MUL {
				if g, ok := x.X.(*ssa.FieldAddr); ok && g.X == fa.X && g.Field == fa.Field {
					return true
				}
			}
		case *ssa.Slice:
			return walk(x.X, depth+1)
		case *ssa.Call:
			if b, ok := x.Call.Value.(*ssa.Builtin); ok && b.Name() == "append" {
				if walk(x.Call.Args[0], depth+1) {
					extra = append(extra, x)
					return true
				}
			}
		}
		return false
	}
	if walk(st.Val, 0) {
		return true, extra
	}
	return false, nil
}

// nilGuards: the store address is FieldAddr(x, _) and a dominating branch established x.f != nil.
func nilGuards(st *ssa.Store) []nilGuard {
	fa, ok := st.Addr.(*ssa.FieldAddr)
	if !ok {
		return nil
	}
	base := fa.X
	var gs []nilGuard
	b := st.Block()
	for d := b.Idom(); d != nil; d = d.Idom() {
		if len(d.Instrs) == 0 {
			continue
		}
		iff, ok := d.Instrs[len(d.Instrs)-1].(*ssa.If)
		if !ok || len(d.Succs) != 2 {
			continue
		}
		// b must be dominated by the true successor
		if !d.Succs[0].Dominates(b) {
			continue
		}
		bo, ok := iff.Cond.(*ssa.BinOp)
		if !ok || bo.Op != token.NEQ {
			continue
		}
		var ld *ssa.UnOp
		if c, isC := bo.Y.(*ssa.Const); isC && c.IsNil() {
			ld, _ = bo.X.(*ssa.UnOp)
		}
		if ld == nil || ld.Op != token.MUL {
			continue
		}
		if gfa, ok := ld.X.(*ssa.FieldAddr); ok && gfa.X == base {
			gs = append(gs, nilGuard{gfa.Field})
		}
	}
	return gs
}

// freshNode holds only the new backing array of an append call.
func (p *pta) freshNode(call *ssa.Call, ph phaseT) nodeID {
	k := valKey{tupleKey{call, -1}, ph}
	if n, ok := p.valNode[k]; ok {
		return n
	}
	n := p.newNode()
	p.valNode[k] = n
	return n
}

func (p *pta) tupleNode(call *ssa.Call, idx int, ph phaseT) nodeID {
	k := valKey{tupleKey{call, idx}, ph}
	if n, ok := p.valNode[k]; ok {
		return n
	}
	n := p.newNode()
	p.valNode[k] = n
	return n
}

type tupleKey struct {
	call *ssa.Call
	idx  int
}

func (tupleKey) Name() string                  { return "tuple" }
func (tupleKey) String() string                { return "tuple" }
func (tupleKey) Type() types.Type              { return types.Typ[types.Invalid] }
func (tupleKey) Parent() *ssa.Function         { return nil }
func (tupleKey) Referrers() *[]ssa.Instruction { return nil }
func (tupleKey) Pos() token.Pos                { return token.NoPos }

// resultNodes gives the nodes receiving the results of a call instruction.
func (p *pta) resultNodes(ins ssa.Instruction, ph phaseT, nres int) []nodeID {
	call, ok := ins.(*ssa.Call)
	out := make([]nodeID, nres)
	for i := range out {
		out[i] = -1
	}
	if !ok {
		return out // go/defer: results dropped
	}
	if nres == 1 {
		out[0] = p.node(call, ph)
		return out
	}
	for i := 0; i < nres; i++ {
		out[i] = p.tupleNode(call, i, ph)
	}
	return out
}

func (p *pta) call(fc *fnCopy, ins ssa.Instruction, cc *ssa.CallCommon) {
	fn, ph := fc.fn, fc.ph
	n := func(v ssa.Value) nodeID { return p.node(v, ph) }
	// builtins
	if b, ok := cc.Value.(*ssa.Builtin); ok {
		switch b.Name() {
		case "append":
			if call, ok := ins.(*ssa.Call); ok {
				dst := n(call)
				s := n(cc.Args[0])
				p.addCopy(s, dst) // may reuse the backing array
				o := p.allocObj(ins, ph, "append", "slice grown by append in "+p.posLabel(fn, ins.Pos()), ins.Pos(), call.Type())
				p.addObj(dst, o)
				p.addObj(p.freshNode(call, ph), o)
				if len(cc.Args) > 1 {
					if src := n(cc.Args[1]); src >= 0 {
						// elements of the appended slice flow into the elements of the result
						tmp := p.newNode()
						p.addComplex(src, complexC{kind: 7, other: tmp, field: -1})
						p.addComplex(dst, complexC{kind: 8, other: tmp, field: -1})
					}
				}
				if s >= 0 {
					p.writes = append(p.writes, writeSite{fn: fn, ph: ph, instr: ins, kind: "append", target: s, elem: true, want: containerOf(cc.Args[0].Type())})
				}
			}
		case "copy":
			d, s := n(cc.Args[0]), n(cc.Args[1])
			if d >= 0 {
				if s >= 0 {
					tmp := p.newNode()
					p.addComplex(s, complexC{kind: 7, other: tmp, field: -1})
					p.addComplex(d, complexC{kind: 8, other: tmp, field: -1})
				}
				p.writes = append(p.writes, writeSite{fn: fn, ph: ph, instr: ins, kind: "copy", target: d, elem: true, want: containerOf(cc.Args[0].Type())})
			}
		case "delete":
			if m := n(cc.Args[0]); m >= 0 {
				p.writes = append(p.writes, writeSite{fn: fn, ph: ph, instr: ins, kind: "mapupdate", target: m})
			}
		case "clear":
			if m := n(cc.Args[0]); m >= 0 {
				p.writes = append(p.writes, writeSite{fn: fn, ph: ph, instr: ins, kind: "mapupdate", target: m})
			}
		}
		return
	}
	// callees
	var callees []*ssa.Function
	if sc := cc.StaticCallee(); sc != nil {
		callees = []*ssa.Function{sc}
	} else if nd := p.cg.Nodes[fn]; nd != nil {
		for _, e := range nd.Out {
			if e.Site == ins.(ssa.CallInstruction) && e.Callee.Func != nil {
				callees = append(callees, e.Callee.Func)
			}
		}
	}
	args := cc.Args
	var recv ssa.Value
	if cc.IsInvoke() {
		recv = cc.Value
	}
	nres := cc.Signature().Results().Len()
	res := p.resultNodes(ins, ph, nres)
	if len(callees) == 0 {
		// unresolved dynamic call (user callback): results are caller-owned
		for i, r := range res {
			if r >= 0 {
				p.callerValue(r, cc.Signature().Results().At(i).Type())
			}
		}
		p.unanalysed["dynamic call without callee in "+p.posLabel(fn, ins.Pos())]++
		return
	}
	for _, cal := range callees {
		if p.analysed(cal) {
			cfc := p.ensure(cal, ph)
			params := cal.Params
			ai := 0
			if recv != nil && len(params) > 0 {
				p.addCopy(n(recv), p.node(params[0], ph))
				ai = 1
			}
			for i, a := range args {
				if ai+i < len(params) {
					p.addCopy(n(a), p.node(params[ai+i], ph))
				}
			}
			for i, r := range res {
				if i < len(cfc.ret) && r >= 0 {
					p.addCopy(cfc.ret[i], r)
				}
			}
			continue
		}
		p.external(fc, ins, cal, recv, args, res)
	}
}

// receiver-mutating library calls: they count as writes to their first argument (receiver).
var libMutators = map[string]bool{
	"(*go/types.Named).AddMethod": true, "(*go/types.Named).SetUnderlying": true, "(*go/types.Named).SetTypeParams": true,
	"(*go/types.Scope).Insert": true, "(*go/types.Var).SetKind": true, "(*go/types.Interface).Complete": true,
	"(*go/types.Interface).MarkImplicit": true, "(*go/types.Package).SetImports": true, "(*go/types.Package).MarkComplete": true,
	"(*go/types.Package).SetName": true, "(*go/types.TypeParam).SetConstraint": true, "(*go/types.Func).SetPkg": true,
	"sort.Slice": true, "sort.SliceStable": true, "sort.Sort": true, "sort.Stable": true, "sort.Strings": true, "sort.Ints": true,
	"(*bytes.Buffer).Write": true, "(*bytes.Buffer).WriteString": true, "(*bytes.Buffer).WriteByte": true, "(*bytes.Buffer).WriteRune": true,
	"(*bytes.Buffer).Reset": true, "(*bytes.Buffer).Truncate": true, "(*strings.Builder).WriteString": true,
	"(*math/big.Int).Set": true, "(*math/big.Int).SetInt64": true, "(*math/big.Int).SetString": true, "(*math/big.Int).Add": true,
	"(*math/big.Int).Mul": true, "(*math/big.Int).Neg": true, "(*math/big.Rat).SetFrac": true, "(*math/big.Rat).SetInt": true,
	"(*math/big.Rat).Set": true, "(*math/big.Float).Set": true,
	"(*go/token.FileSet).AddFile": true, "(*text/tabwriter.Writer).Init": true,
}

// fresh-result constructors: the result is a new object holding the arguments.
func libFresh(name string) bool {
	return strings.HasPrefix(name, "go/types.New") || strings.HasPrefix(name, "go/ast.New") || strings.HasPrefix(name, "go/constant.Make") ||
		strings.HasPrefix(name, "math/big.New") || name == "errors.New" || strings.HasPrefix(name, "fmt.") || strings.HasPrefix(name, "strings.") ||
		strings.HasPrefix(name, "strconv.") || name == "(*sync.Pool).Get" || strings.HasPrefix(name, "go/token.New") || strings.HasPrefix(name, "go/types.Instantiate")
}

func ssaFuncName(fn *ssa.Function) string {
	if fn.Signature.Recv() != nil {
		return "(" + fn.Signature.Recv().Type().String() + ")." + fn.Name()
	}
	if fn.Pkg != nil {
		return fn.Pkg.Pkg.Path() + "." + fn.Name()
	}
	if o := fn.Object(); o != nil && o.Pkg() != nil {
		return o.Pkg().Path() + "." + fn.Name()
	}
	return fn.Name()
}

func (p *pta) external(fc *fnCopy, ins ssa.Instruction, cal *ssa.Function, recv ssa.Value, args []ssa.Value, res []nodeID) {
	fn, ph := fc.fn, fc.ph
	name := ssaFuncName(cal)
	all := args
	if recv != nil {
		all = append([]ssa.Value{recv}, args...)
	}
	if libMutators[name] && len(all) > 0 {
		if t := p.node(all[0], ph); t >= 0 {
			p.writes = append(p.writes, writeSite{fn: fn, ph: ph, instr: ins, kind: "mutator:" + name, target: t, want: containerOf(all[0].Type())})
			// what is handed to the mutator is stored inside the receiver
			for _, a := range all[1:] {
				if src := p.node(a, ph); src >= 0 {
					p.addComplex(t, complexC{kind: 5, other: src})
				}
			}
		}
	}
	// ast.Walk / ast.Inspect: the visitor sees every node reachable from the root
	if name == "go/ast.Walk" || name == "go/ast.Inspect" {
		p.walkSummary(fc, ins, all)
	}
	any := false
	for _, r := range res {
		if r >= 0 {
			any = true
		}
	}
	if !any {
		return
	}
	p.nExt++
	if !libFresh(name) {
		hasPtrArg := false
		for _, a := range all {
			if p.node(a, ph) >= 0 {
				hasPtrArg = true
			}
		}
		if hasPtrArg {
			// pure accessor: the result is an argument or something stored in an argument; no new object
			for _, r := range res {
				if r < 0 {
					continue
				}
				for _, a := range all {
					if src := p.node(a, ph); src >= 0 {
						p.addCopy(src, r)
						p.addComplex(src, complexC{kind: 4, other: r})
					}
				}
			}
			return
		}
	}
	var site interface{} = ins
	label := "result of " + name + " called in " + p.posLabel(fn, ins.Pos())
	if !libFresh(name) {
		site, label = name, "value obtained from "+name // accessor-like: one object per callee
	}
	// the object is typed by the (first pointer-like) result: *T -> T, slices/maps as such; interfaces stay opaque
	var rtyp types.Type
	rs := cal.Signature.Results()
	for i := 0; i < rs.Len() && rtyp == nil; i++ {
		switch u := rs.At(i).Type().Underlying().(type) {
		case *types.Pointer:
			rtyp = u.Elem()
		case *types.Slice, *types.Map, *types.Chan:
			rtyp = rs.At(i).Type()
		}
	}
	o := p.allocObj(site, ph, "ext:"+name, label, ins.Pos(), rtyp)
	p.objs[o].kind = "ext"
	p.objs[o].flat = true
	if rtyp == nil {
		for i := 0; i < rs.Len(); i++ {
			if _, ok := rs.At(i).Type().Underlying().(*types.Interface); ok && p.objs[o].iface == nil {
				p.objs[o].iface = rs.At(i).Type()
			}
		}
	}
	fresh := libFresh(name)
	for _, r := range res {
		if r < 0 {
			continue
		}
		p.addObj(r, o)
		for _, a := range all {
			src := p.node(a, ph)
			if src < 0 {
				continue
			}
			// the result object may hold the arguments
			p.addCopy(src, p.objs[o].smash)
			if !fresh {
				// accessor-like: the result may be an argument, or anything stored in an argument
				p.addCopy(src, r)
				p.addComplex(src, complexC{kind: 4, other: r})
			}
		}
	}
}

// walkSummary models ast.Walk(v, root) / ast.Inspect(root, f): the visitor's node parameter receives root and
// everything reachable from it.
func (p *pta) walkSummary(fc *fnCopy, ins ssa.Instruction, all []ssa.Value) {
	ph := fc.ph
	if len(all) != 2 {
		return
	}
	var visitor, root ssa.Value
	if strings.Contains(all[0].Type().String(), "Visitor") {
		visitor, root = all[0], all[1]
	} else {
		root, visitor = all[0], all[1]
	}
	reach := p.newNode()
	p.addCopy(p.node(root, ph), reach)
	p.addComplex(reach, complexC{kind: 9, other: reach}) // transitive closure over loads
	// the callees: Visit methods of the analysed packages whose receiver may be the visitor, or the func literal
	if mc, ok := visitor.(*ssa.MakeClosure); ok {
		anon := mc.Fn.(*ssa.Function)
		p.ensure(anon, ph)
		if len(anon.Params) > 0 {
			p.addCopy(reach, p.node(anon.Params[0], ph))
		}
		return
	}
	for _, pkg := range p.c.Prog.AllPackages() {
		if !p.c.IsAnalysed(pkg.Pkg) {
			continue
		}
		for _, m := range pkg.Members {
			t, ok := m.(*ssa.Type)
			if !ok {
				continue
			}
			for _, recvT := range []types.Type{t.Type(), types.NewPointer(t.Type())} {
				ms := p.c.Prog.MethodSets.MethodSet(recvT)
				if sel := ms.Lookup(pkg.Pkg, "Visit"); sel != nil {
					f := p.c.Prog.MethodValue(sel)
					if f != nil && p.analysed(f) && len(f.Params) == 2 {
						p.ensure(f, ph)
						p.addCopy(p.node(visitor, ph), p.node(f.Params[0], ph))
						p.addCopy(reach, p.node(f.Params[1], ph))
					}
				}
			}
		}
	}
}

// ---------------------------------------------------------------------------

func (p *pta) typeMatches(o objID, t types.Type) bool {
	ob := p.objs[o]
	if ob.kind == "caller" && (ob.typ == nil || ob.closed) {
		return true
	}
	if ob.typ == nil || ob.closed {
		// opaque library value: it lives in a library package, so it cannot have a type of the analysed packages,
		// and it implements an interface only if some library type does (not decided: accepted)
		if n := namedOf(t); n != nil && n.Obj().Pkg() != nil && p.c.IsAnalysed(n.Obj().Pkg()) {
			if _, isIface := t.Underlying().(*types.Interface); !isIface {
				return false
			}
		}
		return true
	}
	// the value in the interface: pointer to the object (alloc/global) or the object itself (box)
	var dyn types.Type
	if ob.kind == "box" {
		dyn = ob.typ
	} else {
		switch ob.typ.Underlying().(type) {
		case *types.Slice, *types.Map, *types.Chan:
			dyn = ob.typ
		default:
			dyn = types.NewPointer(ob.typ)
		}
	}
	if it, ok := t.Underlying().(*types.Interface); ok {
		return types.Implements(dyn, it) || types.AssignableTo(dyn, t)
	}
	return types.Identical(dyn, t)
}

func (p *pta) solve() {
	steps := 0
	if os.Getenv("PTA_DEBUG") != "" {
		h := map[string]int{}
		for _, o := range p.objs {
			k := o.kind
			if o.parent >= 0 {
				k += "/sub"
			}
			h[k]++
		}
		fmt.Fprintf(os.Stderr, "pta: start nodes=%d objs=%v queue=%d\n", len(p.nodes), h, len(p.work))
	}
	for head := 0; head < len(p.work); head++ {
		n := p.work[head]
		if head > 1<<20 {
			p.work = append([]nodeID{}, p.work[head:]...)
			head = 0
		}
		steps++
		if steps%200_000 == 0 && os.Getenv("PTA_DEBUG") != "" {
			fmt.Fprintf(os.Stderr, "pta: steps=%d queue=%d nodes=%d objs=%d copies=%d\n", steps, len(p.work)-head, len(p.nodes), len(p.objs), len(p.copies))
		}
		if steps > 200_000_000 {
			p.aborted = true
			return
		}
		p.inWork[n] = false
		nd := p.nodes[n]
		d := nd.delta
		nd.delta = nil
		if len(d) == 0 {
			continue
		}
		p.curSrc = n
		for _, dst := range nd.copyTo {
			p.flow(d, dst)
		}
		if len(nd.complex) > 0 {
			var fresh []int32
			d.each(func(i int32) { fresh = append(fresh, i) })
			for _, i := range fresh {
				for k := 0; k < len(nd.complex); k++ {
					p.apply(n, objID(i), nd.complex[k])
				}
			}
		}
	}
	p.work = p.work[:0]
}

// pointee: *T -> T
func pointee(t types.Type) types.Type {
	if p, ok := t.Underlying().(*types.Pointer); ok {
		return p.Elem()
	}
	return nil
}

// containerOf: the container a slice/map/chan/array-pointer value designates
func containerOf(t types.Type) types.Type {
	if p, ok := t.Underlying().(*types.Pointer); ok {
		return p.Elem()
	}
	return t
}

func elemOfContainer(t types.Type) types.Type {
	switch u := t.Underlying().(type) {
	case *types.Slice:
		return u.Elem()
	case *types.Array:
		return u.Elem()
	}
	return nil
}

// compat: Go is memory safe, so a pointer of static type *T designates storage of type T.
func (ob *ptaObj) ifaceU() (*types.Interface, bool) {
	if ob.iface == nil {
		return nil, false
	}
	it, ok := ob.iface.Underlying().(*types.Interface)
	return it, ok && !it.Empty()
}

func (p *pta) compat(o objID, want types.Type) bool {
	ob := p.objs[o]
	if want == nil {
		return true
	}
	if ob.scalar {
		return !pointerLike(want)
	}
	if ob.typ == nil || ob.closed {
		// opaque library/caller object: it cannot be storage of a type declared in the analysed packages
		if ob.kind == "caller" {
			return true
		}
		n := namedOf(want)
		if n != nil && n.Obj().Pkg() != nil && p.c.IsAnalysed(n.Obj().Pkg()) {
			return false
		}
		if ob.typ == nil {
			// value behind a library interface: storage of a named library type that implements it
			if n == nil || n.Obj().Pkg() == nil {
				return false
			}
			if it, ok := ob.ifaceU(); ok {
				return types.Implements(types.NewPointer(want), it) || types.Implements(want, it)
			}
			return true
		}
	}
	a, b := ob.typ.Underlying(), want.Underlying()
	if types.Identical(a, b) {
		return true
	}
	if ob.flat {
		// field-insensitive library object: a pointer into it may have the type of any of its (library-typed) parts
		if n := namedOf(want); n != nil {
			if _, isStruct := n.Underlying().(*types.Struct); isStruct {
				return false // a different named struct type is a different object, not a part of this one
			}
		}
		return true
	}
	// slices and arrays share backing stores
	if ea, eb := elemOfContainer(ob.typ), elemOfContainer(want); ea != nil && eb != nil {
		return types.Identical(ea.Underlying(), eb.Underlying())
	}
	// an interface-typed cell can be designated by pointers to interface types only: handled by Identical
	return false
}

func (p *pta) apply(n nodeID, o objID, cc complexC) {
	ob := p.objs[o]
	switch cc.kind {
	case 1, 2, 3, 4, 5, 7, 8:
		if !p.compat(o, cc.want) {
			return
		}
	}
	switch cc.kind {
	case 1: // load pointer-shaped
		p.addCopy(ob.content, cc.other)
	case 4: // load whole object
		p.addCopy(ob.all, cc.other)
	case 2: // store pointer-shaped
		if o != p.callerO {
			p.addCopy(cc.other, ob.content)
		}
	case 5: // store whole value
		if o != p.callerO {
			p.addCopy(cc.other, ob.smash)
		}
	case 3: // address of field / element
		so := p.sub(o, cc.field)
		p.addObj(cc.other, so)
		if p.why != nil {
			p.why[[2]int32{int32(cc.other), int32(so)}] = int32(n)
			p.whyObj[[2]int32{int32(cc.other), int32(so)}] = int32(o)
		}
	case 7: // read element (map lookup, range, channel receive, slice elements)
		s := p.sub(o, -1)
		p.addCopy(p.objs[s].all, cc.other)
	case 8: // write element
		if o != p.callerO {
			s := p.sub(o, -1)
			p.addCopy(cc.other, p.objs[s].smash)
		}
	case 6: // type assertion filter
		if p.typeMatches(o, cc.filter) {
			if isPtrShaped(cc.filter) {
				p.addObj(cc.other, o)
				if p.why != nil {
					p.why[[2]int32{int32(cc.other), int32(o)}] = int32(n)
				}
			} else {
				// unboxing a value: the result is the box's contents
				p.addCopy(ob.all, cc.other)
			}
		}
	case 9: // reachability closure: everything stored in o is reachable too
		p.addCopy(ob.all, cc.other)
	}
}

// ---------------------------------------------------------------------------

type ptaViolation struct {
	fn     string
	kind   string
	pos    token.Pos
	target string // label of the init-time object
	tpos   token.Pos
}

// run analyses the program and returns the writes of run-phase code into init-time objects.
func (p *pta) run() (viol []ptaViolation, stats map[string]int) {
	prog := p.c.Prog
	// init phase: package initialisers
	for _, pkg := range prog.AllPackages() {
		if !p.c.IsAnalysed(pkg.Pkg) {
			continue
		}
		if f := pkg.Func("init"); f != nil {
			p.ensure(f, phInit)
		}
		for _, m := range pkg.Members {
			if f, ok := m.(*ssa.Function); ok && strings.HasPrefix(f.Name(), "init#") {
				p.ensure(f, phInit)
			}
		}
	}
	// run phase: the exported API (functions, methods of every type) and init-created closures
	for _, pkg := range prog.AllPackages() {
		if !p.c.IsAnalysed(pkg.Pkg) {
			continue
		}
		for _, m := range pkg.Members {
			switch x := m.(type) {
			case *ssa.Function:
				if x.Object() != nil && x.Object().Exported() {
					p.rootFn(x)
				}
			case *ssa.Type:
				for _, recvT := range []types.Type{x.Type(), types.NewPointer(x.Type())} {
					ms := prog.MethodSets.MethodSet(recvT)
					for i := 0; i < ms.Len(); i++ {
						if f := prog.MethodValue(ms.At(i)); f != nil && p.analysed(f) && ms.At(i).Obj().Exported() {
							p.rootFn(f)
						}
					}
				}
			}
		}
	}
	p.solve()
	// backing arrays some slice expression cuts short (capacity may exceed length afterwards)
	spare := map[objID]bool{}
	for _, nd := range p.shortened {
		p.nodes[nd].pts.each(func(i int32) { spare[p.objRoot(objID(i))] = true })
	}
	// classify writes
	seen := map[string]bool{}
	nWrites := 0
	for _, w := range p.writes {
		if w.ph != phRun {
			continue
		}
		nWrites++
		top := w.fn
		for top.Parent() != nil {
			top = top.Parent()
		}
		fname := top.Name()
		if o, ok := top.Object().(*types.Func); ok {
			fname = fw.FuncName(o)
		}
		if q := os.Getenv("PTA_SITE"); q != "" && strings.Contains(fname, q) {
			var labs []string
			p.nodes[w.target].pts.each(func(i int32) {
				r := p.objs[p.objRoot(objID(i))]
				labs = append(labs, fmt.Sprintf("%s(phase %d, compat %v)", r.label, r.phase, p.compat(objID(i), w.want)))
			})
			fmt.Fprintf(os.Stderr, "SITE %s %s at %s: %v\n", fname, w.kind, p.posLabel(w.fn, w.instr.Pos()), labs)
		}
		p.nodes[w.target].pts.each(func(i int32) {
			o := objID(i)
			r := p.objs[p.objRoot(o)]
			if r.phase != phInit {
				return
			}
			if !p.compat(o, w.want) {
				return
			}
			if w.kind == "append" {
				if a, ok := r.site.(*ssa.Alloc); ok && a.Comment == "slicelit" && !spare[p.objRoot(o)] {
					return // the backing array of a slice literal has no spare capacity (and nothing cuts it short): append reallocates
				}
			}
			// nil-guard filtering: `x.f != nil` holds, so objects whose field f holds nothing are excluded
			if len(w.guards) > 0 {
				base := o
				if p.objs[o].parent >= 0 {
					base = p.objs[o].parent
				}
				for _, g := range w.guards {
					s, ok := p.objs[base].subs[g.field]
					if !ok || p.empty(p.objs[s].all) {
						return
					}
					if os.Getenv("PTA_DEBUG") != "" && p.why != nil {
						p.nodes[p.objs[s].all].pts.each(func(j int32) {
							fmt.Fprintf(os.Stderr, "HELD %s in field %d of %s because:\n", p.objs[j].label, g.field, p.objs[base].label)
							n := p.objs[s].all
							cur := objID(j)
							for depth := 0; depth < 40; depth++ {
								fmt.Fprintf(os.Stderr, "   node %d (obj %d): %s\n", n, cur, p.nodeLabel[n])
								k := [2]int32{int32(n), int32(cur)}
								src, ok := p.why[k]
								if !ok || src < 0 {
									break
								}
								if po, ok := p.whyObj[k]; ok {
									cur = objID(po)
								}
								n = nodeID(src)
							}
						})
					}
					if os.Getenv("PTA_DEBUG") != "" {
						var held []string
						p.nodes[p.objs[s].all].pts.each(func(j int32) { held = append(held, p.objs[j].label) })
						fmt.Fprintf(os.Stderr, "pta: guard on field %d of %s holds %v\n", g.field, p.objs[base].label, held)
					}
				}
			}
			// a store through the address of a local variable that merely *holds* a pointer is a write to the local
			key := fname + "|" + w.kind + "|" + r.label
			if seen[key] {
				return
			}
			seen[key] = true
			if q := os.Getenv("PTA_WHY"); q != "" && p.why != nil {
				parts := strings.SplitN(q, "|", 2)
				if strings.Contains(fname, parts[0]) && (len(parts) < 2 || strings.Contains(r.label, parts[1])) {
					fmt.Fprintf(os.Stderr, "WHY %s %s -> %s (obj %d, sub of %d)\n", fname, w.kind, r.label, o, p.objRoot(o))
					n := w.target
					cur := o
					for depth := 0; depth < 80; depth++ {
						fmt.Fprintf(os.Stderr, "   node %d (obj %d %s): %s\n", n, cur, p.objs[cur].label, p.nodeLabel[n])
						k := [2]int32{int32(n), int32(cur)}
						src, ok := p.why[k]
						if !ok || src < 0 {
							break
						}
						if po, ok := p.whyObj[k]; ok {
							cur = objID(po)
						}
						n = nodeID(src)
					}
				}
			}
			viol = append(viol, ptaViolation{fn: fname, kind: w.kind, pos: w.instr.Pos(), target: r.label, tpos: r.pos})
		})
	}
	sort.Slice(viol, func(i, j int) bool {
		if viol[i].fn != viol[j].fn {
			return viol[i].fn < viol[j].fn
		}
		return viol[i].target < viol[j].target
	})
	nInit, nRun := 0, 0
	for k := range p.copies {
		if k.ph == phInit {
			nInit++
		} else {
			nRun++
		}
	}
	nInitObj := 0
	for _, o := range p.objs {
		if o.parent < 0 && o.phase == phInit {
			nInitObj++
		}
	}
	stats = map[string]int{"nodes": len(p.nodes), "objects": len(p.objs), "init-time root objects": nInitObj, "function copies (init phase)": nInit,
		"function copies (run phase)": nRun, "write sites in run-phase code": nWrites, "external calls summarised": p.nExt}
	return
}

func (p *pta) rootFn(f *ssa.Function) {
	if !p.analysed(f) {
		return
	}
	if _, done := p.copies[copyKey{f, phRun}]; done {
		// parameters of an API root are caller-owned
	}
	p.ensure(f, phRun)
	for _, prm := range f.Params {
		n := p.node(prm, phRun)
		p.callerValue(n, prm.Type())
		if _, isPtr := prm.Type().Underlying().(*types.Pointer); isPtr && n >= 0 {
			if key := p.handBackKey(prm.Type()); key != "" {
				if p.handBack == nil {
					p.handBack = map[string][]nodeID{}
				}
				p.handBack[key] = append(p.handBack[key], n)
				for _, o := range p.libObjs[key] {
					p.addObj(n, o)
				}
			}
		}
	}
}

func (v ptaViolation) String() string {
	return fmt.Sprintf("%s: %s into %s", v.fn, v.kind, v.target)
}
