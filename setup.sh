#!/bin/sh
# builds the checker from files on disk only (offline)
set -e
cd "$(dirname "$0")"
export GOWORK=off GOFLAGS=-mod=mod GOPROXY=off GOSUMDB=off GOTOOLCHAIN=local
mkdir -p bin evidence
(cd checker && go build -o ../bin/gogenvet .)
echo "built bin/gogenvet"
